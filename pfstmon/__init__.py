"""pfstmon: runtime monitors and reference oracles for pfst (tom-pytel/pfst) properties C01-C20."""
