"""C19 - coercion yields a valid node of the requested kind with the same content."""

import ast
import io
import keyword
import re
import tokenize

META = {
    'level': 'exploration',
    'rule': ('matrix: operands = a table of samples for every AST class incl. special slices in several layouts (bare, parenthesised, multi-line, commented, multi-byte) plus '
             'copies of nodes from REAL windows x every target in parsex.Mode (string names and AST classes) x entry {as_(mode, copy=True), as_(mode) on a fresh root, '
             'FST(node, mode), FST(pure_ast, mode), implicit coercion on put into a slot of that kind} x coerce/norm options. Oracle on a normal return: result is a root; '
             'its class is the class the Mode documentation names; FST(result.src, mode) re-parses to the same dump(include_attributes) and, where an embedding exists, '
             'CPython agrees; the NAME/NUMBER/STRING token sequence of the result equals that of the operand (keywords/introducers of either kind removed); operand of the '
             'requested kind is returned unchanged; formatted route and pure-AST route give equal structure; copy-mode entries leave the operand snapshot unchanged, also '
             'when coercion raises; put-with-coercion gives the same structure as put of the explicitly converted node. A cell is (operand class, target mode, entry, outcome). Every operand is also tried with its single-letter identifiers renamed to multi-byte names (char columns != byte columns).'),
    'budget': {'quick': 45, 'thorough': 900},
    'floors': {'quick': {'coercions_attempted': 30000, 'coercions_succeeded': 6000, 'content_compared': 5000, 'operand_intact_checks': 20000},
               'thorough': {'coercions_attempted': 600000, 'coercions_succeeded': 120000, 'content_compared': 100000, 'operand_intact_checks': 400000}},
    'assumptions': ['"same content" is decided on the token level: same NAME/NUMBER/STRING tokens in the same order', 'on raise nothing is required except an intact operand in copy mode'],
    'technique': 'runtime monitoring: enumeration of the (source kind, target mode, entry point) matrix with parser-based oracles',
}

SAMPLES = [
    'x', 'a.b', 'a, b', 'a,', '[a, b]', '{a, b}', '(a, b)', '()', '[]', '{a: b}', '{}', 'a + b', 'f(x, k=v)', 'f()', 'a < b', 'a < b < c', 'a and b', 'a if b else c', '1', '"s"', '*a', '-x', 'not x', 'lambda: 0',
    'lambda a, b=1: a', '[i for i in j if i]', '(i for i in j)', 'a[b]', 'a[b:c]', 'a[b, c:d]', 'x := 1', 'await y', 'f"{x}"', '...', 'None', 'a | b', 'a.b.c',
    'x = 1', 'x = y = 1', 'pass', 'if a: pass', 'def f(a, b=1): pass', 'import a.b as c, d', 'from m import a, b as c', 'from m import *', 'with a as b, c: pass', 'try: pass\nexcept E: pass',
    'match x:\n case 1: pass', '@d\nclass C: pass', 'del a, b', 'global a, b', 'a = b = c', 'return x', 'x: int = 1', 'x += 1', 'for i in j: pass', 'a; b', 'x\ny', 'raise E from c', 'assert a, b',
    '(\n a,\n b,\n)', '[a,  # ca\n b]', 'é, "日本"', 'f(é, k="ü")', 'a \\\n+ b', '(a)', '((a, b))', '{**a, b: c}', 'f(*a, **k)', 'x if y else (z, w)',
]
MODE_SAMPLES = {   # (mode used to BUILD the operand, source)
    'ExceptHandler': ['except E as e: pass', 'except (A, B):\n    x\n    y', 'except: pass'], '_ExceptHandlers': ['except A: pass\nexcept B: pass', ''],
    'match_case': ['case 1: pass', 'case [a, *b] if c: pass'], '_match_cases': ['case 1: pass\ncase _: pass', ''],
    'pattern': ['1', 'x', '[a, b]', 'a, b', 'a | b', '{"k": v, **r}', 'C(p, q=r)', 'a as b', '*s', 'None', 'a.b', '-1', '"s"'],
    'expr_slice': ['a:b', 'a:b:c', 'a:b, c', ':'], 'expr_arglike': ['*a', '*not a'], '_arglikes': ['a, *b, c=d, **e', '', 'a', 'k=v'], '_arglike': ['k=v', '**a'],
    'keyword': ['k=v', '**kw'], 'arguments': ['a, /, b=1, *c, d, **e', '', 'a', 'a: int = 1', '*a', '**k'], 'arguments_lambda': ['a, b=1', ''], 'arg': ['a', 'a: int'],
    'Import_name': ['a', 'a.b as c'], 'ImportFrom_name': ['a', 'a as b', '*'], '_Import_names': ['a, b.c as d', ''], '_ImportFrom_names': ['a, b as c', ''],
    'withitem': ['a', 'a as b', 'a as (b, c)'], '_withitems': ['a, b as c', ''], 'comprehension': ['for a in b', 'for a, b in c if d if e', 'async for a in b'],
    '_comprehensions': ['for a in b for c in d', ''], '_comprehension_ifs': ['if a if b', ''], 'type_param': ['T', 'T: int', '*Ts', '**P'], '_type_params': ['T, *Ts, **P', ''],
    '_decorator_list': ['@a\n@b(c)', ''], '_Assign_targets': ['a = b =', 'a =', ''], 'boolop': ['and', 'or'], 'operator': ['+', '**', '>>'], 'unaryop': ['-', 'not'], 'cmpop': ['<', 'is not', 'not in'],
    'Tuple': ['a, b', 'a:b, c', '*a, b'], 'exec': ['a\nb', ''], 'eval': ['a + b'], 'single': ['a = 1'], 'stmts': ['a; b\nc'],
}
HOSTS = {  # host program, path to the slot parent, field, idx : put operand there with implicit coercion
    'expr': ('h = _', ['body', 0], 'value', None), 'stmt': ('if 1:\n    pass', ['body', 0], 'body', 0), 'pattern': ('match s:\n case _: pass', ['body', 0, 'cases', 0], 'pattern', None),
    'withitem': ('with _: pass', ['body', 0], 'items', 0), 'arg': ('def f(_): pass', ['body', 0, 'args'], 'args', 0), 'keyword': ('f(_=1)', ['body', 0, 'value'], 'keywords', 0),
    'ExceptHandler': ('try: pass\nexcept _: pass', ['body', 0], 'handlers', 0), 'match_case': ('match s:\n case _: pass', ['body', 0], 'cases', 0), 'comprehension': ('[_ for _ in _]', ['body', 0, 'value'], 'generators', 0),
    'type_param': ('def f[_](): pass', ['body', 0], 'type_params', 0), 'arguments': ('def f(_): pass', ['body', 0], 'args', None),
}
CTX_RE = re.compile(r', ctx=(Load|Store|Del)\(\)')
INTRO = {'for', 'in', 'if', 'import', 'from', 'as', 'case', 'except', 'del', 'global', 'nonlocal', 'with', 'lambda', 'def', 'class', 'pass', 'async', 'match', 'else', 'try', 'finally', 'return', 'raise', 'assert', 'type'}


def leaf_seq(src):
    try:
        out = []
        for t in tokenize.generate_tokens(io.StringIO(src).readline):
            if t.type == tokenize.NAME and not (keyword.iskeyword(t.string) and t.string not in ('None', 'True', 'False')) and t.string not in ('match', 'case', 'type', '_'):
                out.append(t.string)
            elif t.type == tokenize.NUMBER:
                out.append(t.string)
            elif t.type == tokenize.STRING:
                try:
                    out.append(repr(ast.literal_eval(t.string)))   # compare string constants by value (a pure-AST route re-quotes them)
                except Exception:
                    out.append(re.sub(r'\s+', ' ', t.string))
            elif t.type == tokenize.FSTRING_MIDDLE:
                out.append(re.sub(r'\s+', ' ', t.string))
        return out
    except Exception:
        return None


def ast_leaves(a):
    import collections
    c = collections.Counter()
    for n in ast.walk(a):
        if isinstance(n, ast.Name):
            c[n.id] += 1
        elif isinstance(n, ast.Constant):
            c[repr(n.value)] += 1
        elif isinstance(n, ast.Attribute):
            c[n.attr] += 1
        elif isinstance(n, ast.arg):
            c[n.arg] += 1
        elif isinstance(n, ast.keyword) and n.arg:
            c[n.arg] += 1
        elif isinstance(n, ast.alias):
            for part in n.name.split('.'):
                c[part] += 1
            if n.asname:
                c[n.asname] += 1
        elif isinstance(n, (ast.MatchAs, ast.MatchStar)) and n.name:
            c[n.name] += 1
        elif isinstance(n, ast.MatchMapping) and n.rest:
            c[n.rest] += 1
        elif getattr(n, 'kwd_attrs', None):
            for k in n.kwd_attrs:
                c[k] += 1
        elif isinstance(n, ast.MatchSingleton):
            c[repr(n.value)] += 1
        elif isinstance(n, (ast.FunctionDef, ast.AsyncFunctionDef, ast.ClassDef, ast.TypeVar, ast.ParamSpec, ast.TypeVarTuple)):
            c[n.name] += 1
        elif isinstance(n, (ast.Global, ast.Nonlocal)):
            for k in n.names:
                c[k] += 1
        elif isinstance(n, ast.ExceptHandler) and n.name:
            c[n.name] += 1
        elif isinstance(n, ast.ImportFrom) and n.module:
            for part in n.module.split('.'):
                c[part] += 1
    c.pop('_', None)   # the wildcard: Name '_' <-> MatchAs(name=None)
    return c


def ast_of_src(text, src_fst):
    return src_fst.a


def mode_class_ok(mode, a):
    n = type(a).__name__
    table = {
        'exec': ast.Module, 'stmts': ast.Module, 'eval': ast.Expression, 'single': ast.Interactive, 'stmt': ast.stmt, 'ExceptHandler': ast.ExceptHandler, 'match_case': ast.match_case,
        'expr': ast.expr, 'expr_all': ast.expr, 'expr_arglike': ast.expr, 'expr_slice': ast.expr, 'Tuple_elt': ast.expr, 'Tuple': ast.Tuple, 'boolop': ast.boolop, 'operator': ast.operator,
        'unaryop': ast.unaryop, 'cmpop': ast.cmpop, 'comprehension': ast.comprehension, 'arguments': ast.arguments, 'arguments_lambda': ast.arguments, 'arg': ast.arg, 'keyword': ast.keyword,
        'alias': ast.alias, 'Import_name': ast.alias, 'ImportFrom_name': ast.alias, 'withitem': ast.withitem, 'pattern': ast.pattern, 'type_param': ast.type_param,
    }
    names = {'_ExceptHandlers': '_ExceptHandlers', '_match_cases': '_match_cases', '_Assign_targets': '_Assign_targets', '_decorator_list': '_decorator_list', '_arglikes': '_arglikes',
             '_comprehensions': '_comprehensions', '_comprehension_ifs': '_comprehension_ifs', '_aliases': '_aliases', '_Import_names': '_aliases', '_ImportFrom_names': '_aliases',
             '_withitems': '_withitems', '_pattern_attrlikes': '_pattern_attrlikes', '_type_params': '_type_params'}
    if mode in table:
        return isinstance(a, table[mode])
    if mode in names:
        return n == names[mode]
    if mode == '_arglike':
        return isinstance(a, (ast.expr, ast.keyword))
    if isinstance(mode, type):
        return isinstance(a, mode)
    return True


def all_modes():
    import typing
    from fst.parsex import Mode
    ms = [m for m in typing.get_args(typing.get_args(Mode)[0])]
    return [m for m in ms if m not in ('all', 'strict')]


def snap(f):
    from ..base import D
    return (f.src, D(f.a), f.a.f is f, f.is_root)


def operands(rnd, FST, ctx):
    """(label, builder() -> fresh FST root)"""
    ops = []
    for s in SAMPLES:
        ops.append((s, (lambda s=s: FST(s))))
        v = mb_variant(s)
        if v != s:
            ops.append((v, (lambda s=v: FST(s))))
    for m, srcs in list(MODE_SAMPLES.items()) + list(MODE_SAMPLES_MORE.items()) + list(generated_sequences().items()):
        for s in srcs:
            ops.append((f'{m}:{s}', (lambda s=s, m=m: FST(s, m))))
            v = mb_variant(s)
            if v != s:
                ops.append((f'{m}:{v}', (lambda s=v, m=m: FST(s, m))))
            if m.startswith('_') or m in ('arguments', 'Tuple', 'pattern', 'arguments_lambda'):
                for v in trail_variants(s):
                    ops.append((f'{m}:{v}', (lambda s=v, m=m: FST(s, m))))
    return ops


MB = {'a': 'á', 'b': '日本', 'c': 'ç', 'x': 'ξ', 'k': 'к', 'v': 'ü'}
MODE_SAMPLES_MORE = {
    'arguments': ['a, *b, c', 'a, b=1, /, c, *d, e=2, **f', 'a, b, /', '*, a, b=1', 'a: int, *b: str, **c: x'], 'arguments_lambda': ['a, *b, c', '*a, **k'],
    '_arglikes': ['*a, b, *c, k=v, *d, **e', 'a, *not b', 'a, *b, c', '*b, c, x=1', 'a, *b, c, x=1, **k', '*b, c', 'a, b=1, *c, x, k=2'], 'Tuple': ['a, *b, c', '*a, *b'], 'pattern': ['a, *b, c', '[a, *b]', '{"k": a, "j": b, **c}', 'C(a, b, x=c)'],
    '_aliases': ['a.b.c', 'a.b.c as d, x.k.v'], 'Import_name': ['a.b.c', 'a.b.c.x'], '_Import_names': ['a.b.c, x.k', 'a.b.c'], '_withitems': ['a as b, c as (x, k)'],
    '_type_params': ['a: b, *c, **x'], '_comprehensions': ['for a in b if c for x in k'], '_decorator_list': ['@a.b.c\n@x(k)'],
}


def trail_variants(s):
    """the same fragment followed by trailing trivia (spaces / a comment), also with multi-byte names: end offsets must be byte offsets"""
    if not s.strip() or '\n' in s or '#' in s:
        return []
    m = mb_variant(s)
    return [m + '  ', m + '  # é c', s + ' ']


def generated_sequences():
    """deterministic random sequences for the comma-separated kinds: every element kind at every position"""
    import random
    r = random.Random(19)
    out = {}
    def seqs(items, n, k=(1, 5)):
        res = []
        for _ in range(n):
            res.append(', '.join(r.choice(items) + str(i) if not r.choice(items).endswith('!') else '' for i in range(r.randint(*k))))
        return res
    names = ['a', 'b', 'é', 'x']
    al = []
    for _ in range(30):
        parts = []
        for i in range(r.randint(1, 5)):
            n = r.choice(names) + str(i)
            parts.append(r.choice([n, n, '*' + n, n + '=v', '**' + n, n + '=' + r.choice(names), '*not ' + n]))
        al.append(', '.join(parts))
    out['_arglikes'] = al
    ar = []
    for _ in range(30):
        parts = []
        for i in range(r.randint(1, 5)):
            n = r.choice(names) + str(i)
            parts.append(r.choice([n, n, '*' + n, n + '=1', '**' + n, n + ': int', n + ': int = 2', '/', '*']))
        ar.append(', '.join(parts))
    out['arguments'] = ar
    out['Tuple'] = [', '.join(r.choice([n + str(i), '*' + n + str(i), n + str(i) + '.y', '(' + n + str(i) + ')']) for i, n in enumerate(r.choices(names, k=r.randint(2, 4)))) for _ in range(15)]
    out['_withitems'] = [', '.join(r.choice([n + str(i), n + str(i) + ' as t' + str(i), n + str(i) + ' as (p, q)']) for i, n in enumerate(r.choices(names, k=r.randint(1, 3)))) for _ in range(12)]
    out['_type_params'] = [', '.join(r.choice(['T' + str(i), '*T' + str(i), '**P' + str(i), 'T' + str(i) + ': int']) for i in range(r.randint(1, 3))) for _ in range(10)]
    out['pattern'] = [', '.join(r.choice([n + str(i), '*' + n + str(i), '1', '"s"', n + str(i) + '.y', '[' + n + str(i) + ']']) for i, n in enumerate(r.choices(names, k=r.randint(2, 4)))) for _ in range(12)]
    return out


def mb_variant(s):
    """Same fragment with single-letter identifiers renamed to multi-byte names (char columns != byte columns)."""
    return re.sub(r'(?<![\w"\'\\])([abcxkv])(?![\w"\'])', lambda m: MB[m.group(1)], s)


def judge(ctx, FST, label, build, mode, entry, opts, rnd):
    from .. import embed
    from ..base import D, short
    try:
        src = build()
    except Exception:
        ctx.count('operand_not_constructible')
        return
    case = {'operand': label, 'mode': mode if isinstance(mode, str) else mode.__name__, 'entry': entry, 'opts': opts}
    before = snap(src)
    ocls = type(src.a).__name__
    mname = mode if isinstance(mode, str) else mode.__name__
    ctx.count('coercions_attempted')
    ctx.evaluations += 1
    try:
        if entry == 'as_copy':
            out = src.as_(mode, copy=True, **opts)
        elif entry == 'as_inplace':
            out = src.as_(mode, **opts)
        elif entry == 'FST(node)':
            out = FST(src, mode, **opts) if False else FST(src.copy(), mode, **opts)
        elif entry == 'FST(ast)':
            import copy as _c
            pure = ast.parse(src.src) if isinstance(src.a, ast.Module) else None
            a = src.copy_ast()
            out = FST(a, mode, **opts)
        else:
            return
        raised = None
    except Exception as e:
        raised = e
    if entry in ('as_copy', 'FST(node)', 'FST(ast)'):
        ctx.count('operand_intact_checks')
        if snap(src) != before:
            ctx.violation(f'copy-mode-coercion-changed-operand:{entry}', f'{entry} of {ocls} {short(label, 60)!r} to {mname!r} ({"raised " + type(raised).__name__ if raised else "returned"}): the operand changed: {short(before[0], 80)!r} -> {short(src.src, 80)!r}', case)
            return
    if raised is not None:
        ctx.count('coercion_refused')
        ctx.cell(ocls, mname, entry, 'refused')
        return
    ctx.count('coercions_succeeded')
    ctx.cell(ocls, mname, entry, 'ok')
    if not isinstance(out, FST) or not out.is_root or out.a is None:
        ctx.violation('coercion-result-not-a-root-tree', f'{entry} of {ocls} {label!r} to {mname!r}: result {out!r} is not a root tree', case)
        return
    if not mode_class_ok(mode, out.a):
        ctx.violation(f'coercion-result-wrong-kind:{mname}', f'{entry} of {ocls} {short(label, 60)!r} to {mname!r}: result is a {type(out.a).__name__} {short(out.src, 80)!r}', case)
        return
    # parses in the requested mode and is in sync
    if isinstance(out.a, ast.Set) and not out.a.elts and not opts.get('norm'):
        ctx.count('empty_set_without_norm(documented representation, not judged)')
        return
    tuple_arglike = mname in ('_arglike',) and isinstance(src.a if entry != 'as_inplace' else out.a, ast.Tuple) or (mname == '_arglike' and isinstance(out.a, ast.Tuple))
    def bare_tuple(text):
        """the source spells a tuple WITHOUT enclosing parentheses of its own (decided by CPython: 'x = <text>' is a Tuple that does not start at an opening parenthesis spanning it all)"""
        try:
            v = ast.parse('x = (\n' + text + '\n)').body[0].value
            return isinstance(v, ast.Tuple) and v.lineno == 1   # the wrapper's own parentheses became the tuple's: it had none
        except SyntaxError:
            return False
    try:
        re_ = FST(out.src, mode)
    except Exception as e:
        ctx.violation('tuple-undelimited-as-arglike' if tuple_arglike and bare_tuple(out.src) else 'yield-as-arglike-unparenthesized' if isinstance(out.a, (ast.Yield, ast.YieldFrom)) and mname in ('_arglike', '_arglikes', 'expr_arglike') else f'coercion-result-does-not-parse-in-mode:{mname}', f'{entry} of {ocls} {short(label, 60)!r} to {mname!r}: result source {short(out.src, 100)!r} is rejected in that mode: {type(e).__name__}: {short(str(e), 80)}', case)
        return
    if D(re_.a) != D(out.a):
        ctx.violation('tuple-undelimited-as-arglike' if tuple_arglike and bare_tuple(out.src) else f'coercion-result-out-of-sync:{mname}', f'{entry} of {ocls} {short(label, 60)!r} to {mname!r}: result tree differs from a parse of its source {short(out.src, 100)!r} in that mode', case)
        return
    if isinstance(mode, str) and mode in embed._REF:
        ok, detail = embed.compare_with_ref(out.a, mode, out.src)
        if ok is False:
            ctx.count('cpython_embedding_disagrees(info):' + mname)
        elif ok:
            ctx.count('cpython_embedding_agrees')
    # already the right kind -> unchanged
    if entry == 'as_inplace' and mode_class_ok(mode, ast.parse('0').body[0].value) is not None:
        pass
    same_kind = (mode == type(src.a) if isinstance(mode, type) else False) or (isinstance(mode, str) and mname == ocls)
    if entry == 'as_inplace' and same_kind and out is not src:
        ctx.violation('same-kind-operand-not-returned-unchanged', f'as_({mname!r}) on a root {ocls} returned a different object', case)
        return
    # content
    a_seq, b_seq = leaf_seq(before[0]), leaf_seq(out.src)
    if entry == 'FST(ast)':
        # the pure-AST route re-spells literals (0x10 -> 16, "a" "b" -> 'ab'): compare leaf VALUES as a multiset
        la, lb = ast_leaves(ast_of_src(before[0], src)), ast_leaves(out.a)
        ctx.count('content_compared')
        if la != lb:
            ctx.violation(f'coercion-changes-content:{ocls}->{mname}', f'{entry} of {ocls} {short(before[0], 80)!r} to {mname!r} gives {short(out.src, 80)!r}: leaf values differ: lost {dict(la - lb)} new {dict(lb - la)}', case)
            return
    elif a_seq is not None and b_seq is not None:
        ctx.count('content_compared')
        if a_seq != b_seq:
            # names that are only identifiers introduced/removed by the kind change? none expected
            ctx.violation(f'coercion-changes-content:{ocls}->{mname}', f'{entry} of {ocls} {short(before[0], 80)!r} to {mname!r} gives {short(out.src, 80)!r}: leaf token sequence {a_seq} -> {b_seq}', case)
            return
    # formatted route vs pure AST route
    if entry == 'as_copy' and rnd.random() < 0.5:
        try:
            src2 = build()
            out2 = FST(src2.copy_ast(), mode, **opts)
            s1 = CTX_RE.sub('', ast.dump(out.a))
            s2 = CTX_RE.sub('', ast.dump(out2.a))
            ctx.count('routes_compared')
            if s1 != s2 and ocls == 'MatchSequence' and {type(out.a).__name__, type(out2.a).__name__} == {'Tuple', 'List'} or (s1 != s2 and ocls == 'MatchSequence' and s1.replace('Tuple(', 'List(') == s2.replace('Tuple(', 'List(')):
                ctx.violation('matchsequence-to-expression-kind-depends-on-delimiters', f'{ocls} {short(before[0], 60)!r} to {mname!r}: formatted route {short(s1, 100)} vs pure AST route {short(s2, 100)}', case)
            elif s1 != s2:
                ctx.violation(f'formatted-and-pure-ast-routes-differ:{ocls}->{mname}', f'{ocls} {short(before[0], 60)!r} to {mname!r}: formatted route {short(s1, 160)} vs pure AST route {short(s2, 160)}', case)
        except Exception as e:
            ctx.count('pure_ast_route_refused')
    # put with implicit coercion == put of the converted node
    if entry == 'as_copy' and isinstance(mode, str) and mode in HOSTS and ocls != mname and rnd.random() < 0.6:
        hsrc, hpath, hfield, hidx = HOSTS[mode]
        res = []
        for variant in ('implicit', 'explicit'):
            try:
                host = FST(hsrc, 'exec')
                t = host
                for p in hpath:
                    t = getattr(t, p) if isinstance(p, str) else t[p]
                code = build() if variant == 'implicit' else build().as_(mode, copy=True, **opts)
                t.put(code, hidx, field=hfield, **opts)
                res.append(CTX_RE.sub('', ast.dump(host.a)))
            except Exception as e:
                res.append('EXC:' + type(e).__name__)
        ctx.count('put_coercion_compared')
        if res[0].startswith('EXC'):
            ctx.count('implicit_coercion_refused_on_put(no claim)')
        elif res[0] != res[1]:
            ctx.violation(f'put-with-coercion-differs-from-explicit:{ocls}->{mname}', f'put of {ocls} {short(before[0], 60)!r} into a {mname} slot: implicit coercion -> {short(res[0], 140)}; explicit as_() then put -> {short(res[1], 140)}', case)


SLOT_HOSTS = [   # (host program, path to the slot parent, field, idx): expression-valued slots, single and list
    ('h = [_, q]', ['body', 0, 'value'], 'elts', 0), ('h = (_, q)', ['body', 0, 'value'], 'elts', 0), ('h = {_, q}', ['body', 0, 'value'], 'elts', 1), ('f(_, q)', ['body', 0, 'value'], 'args', 0),
    ('h = _', ['body', 0], 'value', None), ('h = q + _', ['body', 0, 'value'], 'right', None), ('h = q[_]', ['body', 0, 'value'], 'slice', None), ('del _, q', ['body', 0], 'targets', 0),
    ('with _, q: pass', ['body', 0], 'items', 0), ('import _, q', ['body', 0], 'names', 0), ('def f(_, q): pass', ['body', 0, 'args'], 'args', 0), ('f(q, _=1)', ['body', 0, 'value'], 'keywords', 0),
    ('match s:\n case [_, q]: pass', ['body', 0, 'cases', 0, 'pattern'], 'patterns', 0), ('class C(_, q): pass', ['body', 0], 'bases', 0), ('def f[_, Q](): pass', ['body', 0], 'type_params', 0),
]


def run_put_option_consistency(ctx, FST, ops):
    """A put into a slot behaves the same whether `coerce` (on or off) is given per call or as the thread default of an options() block:
    same outcome class (raised exception type, or resulting structure and source). Deterministic over all operands x SLOT_HOSTS."""
    k = 0
    for label, build in ops:
        for hsrc, hpath, hfield, hidx in SLOT_HOSTS:
            for coerce in (False, True):
                k += 1
                if not ctx.mine(k):
                    continue
                if ctx.elapsed() > ctx.budget_s * 0.9:
                    ctx.count('put_option_cells_skipped_time')
                    return
                res = []
                for how in ('per-call', 'block'):
                    try:
                        code = build()
                    except Exception:
                        res = None
                        break
                    host = FST(hsrc, 'exec')
                    t = host
                    for p in hpath:
                        t = getattr(t, p) if isinstance(p, str) else t[p]
                    try:
                        if how == 'per-call':
                            t.put(code, hidx, field=hfield, coerce=coerce)
                        else:
                            with FST.options(coerce=coerce):
                                t.put(code, hidx, field=hfield)
                        res.append(('ok', CTX_RE.sub('', ast.dump(host.a)), host.src))
                    except Exception as e:
                        res.append(('exc', type(e).__name__))
                if res is None:
                    continue
                ctx.count('put_option_consistency_checks')
                ctx.evaluations += 1
                ctx.cell('put-option', hfield, coerce, res[0][0])
                if res[0] != res[1]:
                    ctx.violation(f'per-call-coerce-option-differs-from-block-option:{hfield}', f'put of {label!r} into {hsrc!r}.{hfield} with coerce={coerce}: per call -> {res[0][:2]}, inside FST.options(coerce={coerce}) -> {res[1][:2]}',
                                  {'operand': label, 'host': hsrc, 'field': hfield, 'coerce': coerce, 'part': 'put-option'})


def run(ctx):
    from fst import FST
    from .. import corpus, edits
    modes = all_modes()
    cls_modes = [ast.expr, ast.stmt, ast.Tuple, ast.List, ast.Set, ast.Name, ast.Call, ast.pattern, ast.arguments, ast.withitem, ast.Module, ast.Expr, ast.Dict, ast.MatchSequence, ast.Constant, ast.Starred]
    ops = operands(ctx.rnd, FST, ctx)
    k = 0
    for oi, (label, build) in enumerate(ops):
        for mode in modes + cls_modes:
            k += 1
            if not ctx.mine(k):
                continue
            if ctx.elapsed() > ctx.budget_s * 0.7:
                ctx.count('matrix_cells_skipped_time')
                continue
            for entry in ('as_copy', 'as_inplace', 'FST(node)', 'FST(ast)'):
                for opts in ({}, {'norm': True}, {'coerce': False}):
                    if opts and ctx.rnd.random() < 0.6:
                        continue
                    judge(ctx, FST, label, build, mode, entry, opts, ctx.rnd)
    run_put_option_consistency(ctx, FST, ops)
    # REAL-derived operands
    while not ctx.out_of_time():
        fn, src = corpus.window(ctx.rnd, max_len=1200)
        try:
            root = FST(src, 'exec')
        except Exception:
            continue
        nodes = [n for n in ast.walk(root.a) if not isinstance(n, (ast.expr_context, ast.Module))]
        for n in ctx.rnd.sample(nodes, min(8, len(nodes))):
            try:
                csrc = n.f.copy().src
                cmode = type(n.f.copy().a)
            except Exception:
                continue

            def build(csrc=csrc, cmode=cmode):
                return FST(csrc, cmode)
            for mode in ctx.rnd.sample(modes, 6):
                judge(ctx, FST, f'{cmode.__name__}:{csrc[:60]}', build, mode, ctx.rnd.choice(['as_copy', 'as_inplace', 'FST(node)', 'FST(ast)']), ctx.rnd.choice([{}, {'norm': True}]), ctx.rnd)
        if len(ctx.samples) < 4:
            ctx.sample({'window': fn, 'operands': len(nodes)})


def replay(ctx, case):
    from fst import FST
    import random
    label = case['operand']
    if ':' in label and label.split(':', 1)[0] in MODE_SAMPLES:
        m, s = label.split(':', 1)
        build = lambda: FST(s, m)
    else:
        build = lambda: FST(label)
    mode = case['mode']
    if hasattr(ast, mode) and mode not in all_modes():
        mode = getattr(ast, mode)
    judge(ctx, FST, label, build, mode, case['entry'], case.get('opts', {}), random.Random(0))
