"""C12 - a failed structured edit leaves the target tree untouched and still editable (fault enumeration over natural faults)."""

import ast

META = {
    'level': 'fault_enumeration',
    'rule': ('sequences of 30 steps on REAL windows / GRAMMAR programs mixing valid edits (W1) with requests pfst itself rejects: unparsable code (token-mutated, lone brackets, '
             'bad indentation), wrong-category code (statement into expression slot, Slice/Starred/keyword/alias/withitem/pattern where not allowed; coerce on and off), '
             'ordering-rule violations (arglikes, arguments, MatchMapping rest, except vs except*), deleting mandatory fields / last elements under norm=True, indices, '
             'fields and option values out of range or of wrong type (every option x a table of bad values, unknown option names), FST code that is non-root, already '
             'consumed, or an ancestor of the target, root cut/remove, `to=` misuse; plus replay of the repository golden put cases whose recorded result is an error. '
             'Faults are never injected into pfst internals. Oracle at every raise: source, ast.dump(include_attributes), root identity, a.f links equal the entry '
             'snapshot, no entry for the root in fst_core._MODIFYING; then the next valid edit must succeed and satisfy the C01 oracle. A cell is (fault kind, op, '
             'target type, raise site = innermost pfst frame). Mandatory-delete requests cover conditionally mandatory fields too (ExceptHandler.type of except*, Raise.exc with a cause, AnnAssign.annotation ...).'),
    'budget': {'quick': 50, 'thorough': 900},
    'floors': {'quick': {'failed_requests_checked': 8000, 'raise_sites': 0, 'followup_edits_ok': 3000, '#cells': 400},
               'thorough': {'failed_requests_checked': 150000, 'followup_edits_ok': 50000, '#cells': 1500}},
    'assumptions': ['atomicity is claimed only for requests pfst rejects by itself (the property\'s list); exceptions are not injected into internals',
                    'an FST passed as code is documented as consumed even on failure: only the TARGET tree is compared'],
    'shares_c01_oracle': True,
    'technique': 'runtime monitoring: fault enumeration with hook-exit-by-exception snapshot comparison and follow-up edit',
}

BADCODE = ['(', 'x +', 'def', 'x, *', 'a:b', '1 +', 'lambda', 'x y', '\n', '', '*', '"unterminated', 'x \\', ')', '# c', 'await', 'not', 'x if y', '[a, b', 'a b c', '@', 'if', 'x ==',
           '  indented', 'def f(:\n    pass', 'class', 'f(a=1, 2)', 'f(**k, *a)', '{a: }', '1a', '$', 'x = = 1', 'for in j: pass', 'try:\n    pass', 'else: pass', 'a\n    b', '\x00']
WRONGCAT = {
    'expr': ['pass', 'a = b', 'import x', 'return 1', 'a:b', 'k=v', '**k', 'x as y', 'for i in j', 'case 1: pass', 'except: pass', 'global q', 'break', 'if a: pass\nelse: pass', 'def f(): pass', '@d', 'a; b', 'a\nb'],
    'expr1': ['pass', 'a = b', 'a:b', 'k=v', '*s', 'x as y', 'yield', 'a, b', 'lambda: 0'],
    'dictval': ['pass', '*s', 'a:b', 'k=v', '**k'],
    'target': ['1', 'a + b', 'f()', 'pass', 'lambda: 0', '"s"', 'a if b else c', 'a < b', 'not a', 'await x', '(yield)', 'x := 1', 'None', 'a and b', '[a, 1]', '*a, *b', 'a.b()'],
    'starred': ['pass', 'a:b', 'k=v', '**a'],
    'stmt': ['except: pass', 'case 1: pass', 'else: pass', 'k=v,', 'a:b', 'x as', 'for i in j if', 'elif x: pass', 'finally: pass', '*', 'a, b =', '@d'],
    'handler': ['pass', 'case 1: pass', 'x', 'else: pass', 'finally: pass', 'except* E: pass', 'except E as e.f: pass'],
    'case': ['pass', 'except: pass', 'x', 'case: pass', 'case 1', 'else: pass'],
    'pattern': ['a + b', 'f()', 'lambda: 0', 'pass', 'a if b else c', 'x := 1', '1 +', '*a, *b', 'a.b()', '{**r, "k": v}', '**r', 'a as 1', '-x', 'f"x"'],
    'keyword': ['a', '*a', 'pass', '1=2', 'a.b=1', 'k=', '=v', 'k=v, j=w', 'a:b'],
    'alias_from': ['a.b', '1', 'a as b.c', 'pass', 'a +', '* as x', 'a, b'],
    'alias_import': ['*', '1', 'a as b.c', 'a +', 'a, b', 'pass'],
    'withitem': ['pass', 'a as 1', 'a as b()', 'a:b', 'k=v', '*a', 'a as *b', 'a, b'],
    'comprehension': ['if a', 'for a in', 'pass', 'for a b', 'x', 'for a.b() in c', 'for 1 in c', 'for a in b, c'],
    'arg': ['*a', '**a', 'a=1', '1', 'a.b', 'a, b', 'pass', 'a: int = 3'],
    'type_param': ['1', 'a.b', 'T=', 'pass', '*', 'T, U', 'T: '],
}
BAD_OPTION_VALUES = {
    'raw': ['yes', 2, None], 'trivia': ['nope', 'block*', (1, 2, 3), ('x',), 1.5, ('all', 'line', 3), ['all']], 'coerce': ['x', None, 2], 'elif_': ['x', None, 3],
    'pep8space': [2, 3, -1, 'x', None, 1.5], 'docstr': ['loose', None, 2], 'pars': ['maybe', None, 2], 'pars_walrus': ['x', 2], 'pars_arglike': ['x', 2],
    'norm': ['x', None, 2], 'norm_self': ['x', 3], 'norm_get': ['x', 3], 'set_norm': ['x', True, None], 'op_side': ['middle', None, True], 'args_as': ['x', True, 3],
    'op': [3, 1.5], 'promote': ['x', None, 2],
}
UNKNOWN_OPTIONS = ['bogus', 'Norm', 'trivia_', '', 'to_', 'parse', '__options_checked_']

FAULT_KINDS = ['unparsable', 'wrongcat', 'wrongcat_nocoerce', 'bad_index', 'bad_field', 'bad_option', 'unknown_option', 'nonroot_code', 'consumed_code', 'ancestor_code',
               'ordering', 'mandatory_delete', 'root_cut', 'bad_to', 'dead_code', 'bad_code_type', 'slice_bounds']


def view_collapse_key(e, site):
    """mechanism: an FSTView operation applied the edit, normalisation replaced the view's base node by its single remaining
    operand, and the view then touched the (now different) node"""
    if isinstance(e, AttributeError) and site.startswith('view.py') and 'object has no attribute' in str(e):
        return 'view-op-raises-after-norm-collapsed-its-base-node'
    return None


def snapshot(root):
    from ..base import D
    return (root.src, D(root.a), id(root), tuple(root._lines) if hasattr(root, '_lines') else None)


def gen_fault(rnd, root, donors, FST):
    """A step dict with 'fault' describing how the request is made hostile."""
    from .. import edits
    step = edits.gen_step(rnd, root, donors, None, norm=rnd.choice([True, True, None]))
    if step is None:
        return None
    fk = rnd.choice(FAULT_KINDS)
    step['fault'] = fk
    kind = step['kind']
    if fk == 'unparsable':
        step['code'] = rnd.choice(BADCODE)
        step['form'] = 'src'
        step['op'] = rnd.choice(['replace', 'put', 'assign', 'put_slice_one', 'insert', 'append', 'put_slice', 'setslice', 'view_insert', 'prepend'])
        step.pop('multi', None)
    elif fk in ('wrongcat', 'wrongcat_nocoerce'):
        step['code'] = rnd.choice(WRONGCAT.get(kind, ['pass']))
        step['form'] = 'src'
        step['op'] = rnd.choice(['replace', 'put', 'assign', 'put_slice_one', 'insert', 'append', 'put_slice', 'view_append'])
        step.pop('multi', None)
        if fk == 'wrongcat_nocoerce':
            step['opts']['coerce'] = False
    elif fk == 'bad_index':
        step['bad_index'] = rnd.choice([99, -99, 'end', 'x', 1.5, None, 7, -8, (1, 2), True])
        step['op'] = rnd.choice(['put', 'put_none', 'get_cut', 'setitem', 'delitem', 'insert'])
    elif fk == 'bad_field':
        step['bad_field'] = rnd.choice(['nope', 'ctx', 'lineno', '', '_all', '_body', '_args', 'body', 'elts', 'value', 'targets', 'op', 'ops', '__class__', 'f', 3])
        step['op'] = rnd.choice(['put', 'put_slice', 'insert', 'append', 'get_cut', 'put_none'])
    elif fk == 'bad_option':
        name = rnd.choice(list(BAD_OPTION_VALUES))
        step['opts'][name] = rnd.choice(BAD_OPTION_VALUES[name])
        if rnd.random() < 0.4:
            step['opts']['trivia'] = 'all'   # mixed with a valid option
    elif fk == 'unknown_option':
        step['opts'][rnd.choice(UNKNOWN_OPTIONS)] = rnd.choice([True, 1, 'x'])
    elif fk == 'ordering':
        step['ordering'] = rnd.choice(['kw_before_pos', 'kw_before_pos_view', 'kw_before_pos', 'pos_after_kw', 'dstar_before_star', 'two_varargs', 'default_gap', 'mm_rest_not_last', 'star_alias', 'kwonly_nodefault_order', 'posonly_after'])
    elif fk == 'slice_bounds':
        step['op'] = rnd.choice(['put_slice', 'put_slice_none', 'get_slice_cut'])
        step['bounds'] = rnd.choice([(3, 1), ('end', 0), (-1, -3), ('x', 'y'), (None, None), (1.5, 2), (0, 'nope')])
    return step


def apply_fault(root, step, FST, scratch):
    """Execute the hostile request. Returns normally if pfst accepted it (not a fault then)."""
    from .. import edits
    fk = step['fault']
    node = edits.resolve(root.a, step['path'])
    t = node.f
    parent = t.parent
    field, idx = t.pfield.name, t.pfield.idx
    opts = edits.opts_from_json(step['opts'])
    if fk in ('unparsable', 'wrongcat', 'wrongcat_nocoerce', 'bad_option', 'unknown_option'):
        return edits.apply_step(root, step, FST)
    if fk == 'bad_index':
        bi = step['bad_index']
        bi = tuple(bi) if isinstance(bi, list) else bi
        op = step['op']
        code = edits.make_code(step, FST)
        if op == 'put':
            return parent.put(code, bi, field=field, **opts)
        if op == 'put_none':
            return parent.put(None, bi, field=field, **opts)
        if op == 'get_cut':
            return parent.get(bi, field=field, cut=True, **opts)
        if op == 'setitem':
            with FST.options(**opts):
                getattr(parent, field)[bi] = code
            return
        if op == 'delitem':
            with FST.options(**opts):
                del getattr(parent, field)[bi]
            return
        return parent.insert(code, bi, field, **opts)
    if fk == 'bad_field':
        bf = step['bad_field']
        op = step['op']
        code = edits.make_code(step, FST)
        tgt = parent if op != 'put' or idx is not None else parent
        if op == 'put':
            return tgt.put(code, idx, field=bf, **opts)
        if op == 'put_slice':
            return tgt.put_slice(code, 0, 1, bf, **opts)
        if op == 'insert':
            return tgt.insert(code, 0, bf, **opts)
        if op == 'append':
            return tgt.append(code, bf, **opts)
        if op == 'get_cut':
            return tgt.get(0, field=bf, cut=True, **opts)
        return tgt.put(None, 0, field=bf, **opts)
    if fk == 'nonroot_code':
        other = FST('[u, v + w, {k: z}]\nif q: pass')
        code = [other.body[0].value.elts[1], other.body[0].value, other.body[1], other.body[0].value.elts[1].left][step['path'][-1][1] % 4 if step['path'][-1][1] is not None else 0]
        return t.replace(code, **opts)
    if fk == 'consumed_code':
        c = FST(step['code'], edits.KIND_MODE[step['kind']])
        try:
            FST('[a]').elts[0].replace(c) if step['kind'] in ('expr', 'expr1', 'dictval') else FST('if 1:\n    pass').body[0].replace(c)
        except Exception:
            pass
        return t.replace(c, **opts)
    if fk == 'dead_code':
        o = FST('[a, b]')
        c = o.elts[0]
        c.remove()
        return t.replace(c, **opts)
    if fk == 'ancestor_code':
        anc = list(t.parents())
        code = anc[len(anc) // 2] if anc else root
        return t.replace(code, **opts)
    if fk == 'bad_code_type':
        return t.replace([3, {}, 1.5, object(), b'x', ('a',), ast][len(step['path']) % 7], **opts)
    if fk == 'root_cut':
        return root.cut(**opts) if len(step['path']) % 2 else root.remove(**opts)
    if fk == 'bad_to':
        others = [x.f for x in ast.walk(root.a) if hasattr(x, 'f') and x.f is not t]
        o = others[(len(step['path']) * 7) % len(others)] if others else t
        return t.replace(edits.make_code(step, FST), to=o, **opts)
    if fk == 'mandatory_delete':
        # delete something that must exist (or the last element) with normalisation on
        o = dict(opts, norm=True)
        cands = []
        for x in ast.walk(root.a):
            for fld in ('value', 'test', 'target', 'func', 'left', 'op', 'operand', 'iter', 'subject', 'context_expr', 'name', 'arg', 'elt', 'key',
                        'type', 'exc', 'annotation', 'body', 'slice', 'pattern', 'cls', 'orelse', 'right', 'upper', 'returns', 'optional_vars', 'cause', 'msg'):
                if isinstance(getattr(x, fld, None), ast.AST):
                    cands.append((x.f, fld))
        if not cands:
            raise ValueError('no candidate')
        f, fld = cands[(len(step['path']) * 13 + len(root.src)) % len(cands)]
        return f.put(None, field=fld, **o)
    if fk == 'slice_bounds':
        a, b = step['bounds']
        op = step['op']
        if op == 'put_slice':
            code, one = edits.make_slice_code(step, FST)
            return parent.put_slice(code, a, b, field, **opts)
        if op == 'put_slice_none':
            return parent.put_slice(None, a, b, field, **opts)
        return parent.get_slice(a, b, field, cut=True, **opts)
    if fk == 'ordering':
        o = step['ordering']
        calls = [x.f for x in ast.walk(root.a) if isinstance(x, ast.Call)]
        funcs = [x.f for x in ast.walk(root.a) if isinstance(x, (ast.FunctionDef, ast.AsyncFunctionDef, ast.Lambda))]
        pick = lambda lst: lst[(len(root.src) + len(step['path'])) % len(lst)]
        if o == 'pos_after_kw':
            calls = [c for c in calls if any(k.arg for k in c.a.keywords)]
            if calls:
                return pick(calls).append('posarg', '_args', **opts)
        if o in ('kw_before_pos', 'kw_before_pos_view'):
            calls = [c for c in calls if c.a.args and not isinstance(c.a.args[0], ast.Starred)]
            solo = [c for c in calls if len(c.a.args) == 1 and not c.a.keywords and isinstance(c.a.args[0], ast.GeneratorExp)]
            if solo and len(root.src) % 3:
                calls = solo
            if calls:
                c = pick(calls)
                code = ['kz=1', '**kk', 'kz=1, **kk'][len(step['path']) % 3]
                if o == 'kw_before_pos':
                    return c.put_slice(code, 0, 0, '_args', **opts)
                with FST.options(**opts):
                    return c._args.insert(code.split(',')[0], 0)
        if o == 'dstar_before_star' and calls:
            c = pick(calls)
            return c.put_slice('**dd, *ss', 0, 0, '_args', **opts)
        if o == 'two_varargs' and funcs:
            return pick(funcs).args.put_slice('*va, *vb', 'end', 'end', '_all', **opts)
        if o == 'default_gap' and funcs:
            return pick(funcs).args.put_slice('dflt=1, nodflt', 0, 0, '_all', **opts)
        if o == 'posonly_after' and funcs:
            return pick(funcs).args.put_slice('aa, /, bb, /', 0, 0, '_all', **opts)
        if o == 'kwonly_nodefault_order' and funcs:
            return pick(funcs).args.put_slice('**kk, zz', 0, 0, '_all', **opts)
        if o == 'star_alias':
            imps = [x.f for x in ast.walk(root.a) if isinstance(x, ast.ImportFrom) and x.names[0].name != '*']
            if imps:
                return pick(imps).append('*', 'names', **opts)
        if o == 'mm_rest_not_last':
            mms = [x.f for x in ast.walk(root.a) if isinstance(x, ast.MatchMapping)]
            if mms:
                return pick(mms).put_slice('{**rr, "k": v}', 0, 0, '_all', **opts)
        raise LookupError('no site for ordering fault')
    raise AssertionError(fk)


def run_sequence(ctx, FST, rnd, weights):
    from .. import corpus, edits
    from ..base import exc_site, short, insync
    from .c01 import pick_program, check_after, classify_c01
    import fst as fstmod
    MOD = fstmod.fst_core._MODIFYING
    fn, src, applied = pick_program(ctx, rnd, rnd.random() < 0.3, max_len=2500)
    try:
        root = FST(src, 'exec')
    except Exception:
        return
    try:
        donors = edits.donor_codes(FST(corpus.window(rnd, max_len=1500)[1], 'exec'), None, rnd)
    except Exception:
        donors = {}
    ctx.count('sequences')
    pending_followup = False
    first_faults = []
    for i in range(30):
        if ctx.out_of_time():
            break
        do_fault = rnd.random() < 0.6 and not pending_followup
        pre_ok, _ = insync(root)
        if pre_ok is not True:
            break
        before = snapshot(root)
        if do_fault:
            step = gen_fault(rnd, root, donors, FST)
            if step is None:
                break
            case = {'workload': 'fault', 'src': root.src, 'steps': [step]}
            try:
                apply_fault(root, step, FST, None)
            except LookupError:
                ctx.count('fault_site_unavailable')
                continue
            except Exception as e:
                site = exc_site(e) or 'outside-pfst'
                ctx.count('failed_requests_checked')
                ctx.count('fault:' + step['fault'])
                ctx.evaluations += 1
                ctx.cell(step['fault'], step['op'], step['ttype'], site)
                if len(first_faults) < 3:
                    first_faults.append({'fault': step['fault'], 'op': step['op'], 'code': short(step.get('code'), 60), 'exc': f'{type(e).__name__}: {short(str(e), 80)}', 'site': site})
                after = snapshot(root)
                if after != before:
                    what = 'source' if after[0] != before[0] else 'tree/positions' if after[1] != before[1] else 'root identity/line list'
                    k2 = None
                    if step['fault'] in ('slice_bounds', 'bad_index') and isinstance(e, TypeError) and step['field'] in ('keywords', 'args', 'bases') and step['ptype'] in ('Call', 'ClassDef'):
                        k2 = 'non-integer-index-fails-after-arglike-fields-were-merged'
                    ctx.violation(view_collapse_key(e, site) or k2 or f'failed-edit-changed-target:{what}:{step["fault"]}', f'{step["fault"]} via {step["op"]} on {step["ptype"]}.{step["field"]} raised {type(e).__name__}: {short(str(e), 120)} at {site} '
                                  f'but the target {what} changed: before={short(before[0], 200)!r} after={short(after[0], 200)!r}', case)
                    MOD.pop(root, None)
                    break
                if root in MOD:
                    ctx.violation(f'modification-lock-survives:{step["fault"]}', f'{step["fault"]} via {step["op"]} raised {type(e).__name__} at {site}; root is still registered in _MODIFYING', case)
                    MOD.pop(root, None)
                    break
                if root.a.f is not root:
                    ctx.violation('root-link-broken-after-failure', f'{step["fault"]} via {step["op"]} raised; root.a.f is no longer the root', case)
                    break
                pending_followup = True
                continue
            else:
                ctx.count('hostile_request_accepted')
                ok, detail = insync(root)
                if ok is False and edits.effective_c01_scope(step, FST) and step['fault'] not in ('bad_option', 'unknown_option'):
                    # accepted hostile request must still leave a valid tree (reported under C12's sub-oracle with C01 keys)
                    check_after(ctx, FST, root, step, before[0], prop='C12')
                    break
                if ok is not True:
                    break
                continue
        # valid edit (also the follow-up after a failure)
        step = edits.gen_step(rnd, root, donors, weights, norm=True)
        if step is None:
            break
        try:
            edits.apply_step(root, step, FST)
        except Exception as e:
            # a W1 step may itself be refused: that is just another natural fault - judge atomicity the same way
            ctx.count('failed_requests_checked')
            ctx.count('fault:natural(W1 refused)')
            ctx.evaluations += 1
            site = exc_site(e) or 'outside-pfst'
            ctx.cell('natural', step['op'], step['ttype'], site)
            after = snapshot(root)
            if after != before:
                what = 'source' if after[0] != before[0] else 'tree/positions' if after[1] != before[1] else 'root identity/line list'
                ctx.violation(view_collapse_key(e, site) or f'failed-edit-changed-target:{what}:natural', f'{step["op"]} on {step["ptype"]}.{step["field"]} code={short(step.get("code"), 60)!r} opts={step["opts"]} raised {type(e).__name__}: {short(str(e), 120)} at {site} '
                              f'but the target {what} changed: before={short(before[0], 200)!r} after={short(after[0], 200)!r}', {'workload': 'seq', 'src': before[0], 'steps': [step]})
                MOD.pop(root, None)
                break
            if root in MOD:
                ctx.violation('modification-lock-survives:natural', f'{step["op"]} raised {type(e).__name__} at {site}; root still registered in _MODIFYING', {'workload': 'seq', 'src': before[0], 'steps': [step]})
                MOD.pop(root, None)
                break
            continue
        if pending_followup:
            ctx.count('followup_edits_ok')
            pending_followup = False
        if edits.effective_c01_scope(step, FST):
            if not check_after(ctx, FST, root, step, before[0], prop='C12'):
                break
    if MOD:
        ctx.violation('modification-registry-not-empty-at-end', f'_MODIFYING holds {len(MOD)} entries after the sequence', {'workload': 'fault', 'src': src, 'steps': []})
        MOD.clear()
    if first_faults:
        ctx.sample({'file': fn, 'src': short(src, 120), 'faults': first_faults})


def run_golden_errors(ctx, FST, n):
    """golden cases whose recorded result is an error: inputs only"""
    from . import c01
    from ..base import exc_site, short
    import fst as fstmod
    cases = c01.golden_cases()
    for _ in range(n):
        case = ctx.rnd.choice(cases) if cases else None
        if case is None:
            return
        opts = dict(case['opts'])
        if opts.get('raw'):
            continue
        try:
            f = c01.golden_make(case, FST)
        except Exception:
            continue
        root = f.root
        before = snapshot(root)
        try:
            (FST.put if case['which'] == 'put' else FST.put_slice)(f, case['put'], case['start'], case['stop'], case['field'], **opts)
        except Exception as e:
            ctx.count('failed_requests_checked')
            ctx.count('fault:golden-error-case')
            ctx.evaluations += 1
            ctx.cell('golden', case['which'], case['key'], exc_site(e))
            if snapshot(root) != before:
                ctx.violation('failed-edit-changed-target:golden', f'golden {case["which"]} {case["key"]}[{case["ci"]}] raised {type(e).__name__}: {short(str(e), 100)} but the target changed: {short(before[0], 150)!r} -> {short(root.src, 150)!r}',
                              {'workload': 'golden', 'golden': [case['which'], case['key'], case['ci']]})
            if root in fstmod.fst_core._MODIFYING:
                ctx.violation('modification-lock-survives:golden', f'golden {case["which"]} {case["key"]}[{case["ci"]}]', {'workload': 'golden', 'golden': [case['which'], case['key'], case['ci']]})
                fstmod.fst_core._MODIFYING.pop(root, None)


def run(ctx):
    from fst import FST
    weights = {}
    while not ctx.out_of_time():
        if ctx.rnd.random() < 0.1:
            run_golden_errors(ctx, FST, 60)
        else:
            run_sequence(ctx, FST, ctx.rnd, weights)
    ctx.counters['raise_sites'] = len({c.split('|')[-1] for c in ctx.cells})


def replay(ctx, case):
    from fst import FST
    root = FST(case['src'], 'exec')
    for step in case['steps']:
        before = snapshot(root)
        try:
            if 'fault' in step:
                apply_fault(root, step, FST, None)
            else:
                from .. import edits
                edits.apply_step(root, step, FST)
            print('accepted; src now', repr(root.src[:300]))
        except Exception as e:
            print('raised', type(e).__name__, e)
            if snapshot(root) != before:
                print('TARGET CHANGED:', repr(before[0][:300]), '->', repr(root.src[:300]))
                ctx.violation('failed-edit-changed-target', 'replayed', case)
