"""C03 - edits follow Python container semantics, change nothing else, and agree across entry points and layouts."""

import ast
import copy
import re

META = {
    'level': 'exploration',
    'rule': ('for every container kind in the KINDS table (list fields of expressions, statements, patterns, special slices and the virtual fields _all/_args/_bases/_body), '
             'lengths 0-4, ALL (start, stop) in [-len-2, len+2]^2 plus "end" with put_slice, and every index for single put/delete/insert through every equivalent '
             'entry point (method, put, attribute/view assignment, view slice, replace/remove on the child, insert/append/extend/prepend/prextend): the field extracted '
             'from the live tree must equal the Python list model old[:a] + new + old[b:] computed with slice().indices(); the rest of the tree (dump with the field '
             'blanked) must be unchanged; all entry points of a class and LAYOUT variants of the target must end in the same structure; a refusal is accepted only for '
             'reversed bounds, NotImplementedError, or when the model result is not valid Python. A cell is (kind, op class, entry point, bounds class). LAYOUT variants include a \'staircase\' (each element on its own line, indented less than the one before); on every layout the arglike virtual fields also get single-element puts that switch an element between positional and keyword, followed by the in-sync oracle.'),
    'budget': {'quick': 45, 'thorough': 600},
    'floors': {'quick': {'model_checked': 15000, 'entry_point_classes': 1500, '#cells': 400},
               'thorough': {'model_checked': 150000, 'entry_point_classes': 15000, '#cells': 500}},
    'assumptions': ['elements are compared by ast.dump with expression contexts removed', 'reversed bounds (stop < start after normalisation) are refused by pfst by design: counted, not judged',
                    'Compare._all is modelled on operands only; arguments._all on (name, default) pairs'],
    'technique': 'runtime monitoring: executable reference model (Python list semantics) checked after every monitored container operation',
}

CTX_RE = re.compile(r', ctx=(Load|Store|Del)\(\)')


def K(node):
    if node is None:
        return 'None'
    if isinstance(node, str):
        return 's:' + node
    return CTX_RE.sub('', ast.dump(node))


def resolve(tree, path):
    n = tree
    for p in path:
        n = n[p] if isinstance(p, int) else getattr(n, p)
    return n


def x_field(field):
    return lambda n: [K(e) for e in getattr(n, field)]


def x_dict_all(n):
    return [K(k) + ':' + K(v) for k, v in zip(n.keys, n.values)]


def x_mm_all(n):
    return [K(k) + ':' + K(v) for k, v in zip(n.keys, n.patterns)] + (['**' + n.rest] if n.rest else [])


def x_cmp_all(n):
    return [K(n.left)] + [K(c) for c in n.comparators]


def x_arglikes(field):
    def f(n):
        items = list(getattr(n, field)) + list(n.keywords)
        items.sort(key=lambda e: (e.lineno, e.col_offset))
        return [K(e) for e in items]
    return f


def x_args_all(n):
    out = []
    pos = n.posonlyargs + n.args
    dflt = [None] * (len(pos) - len(n.defaults)) + list(n.defaults)
    for a, d in zip(pos, dflt):
        out.append(a.arg + '=' + K(d))
    if n.vararg:
        out.append('*' + n.vararg.arg)
    for a, d in zip(n.kwonlyargs, n.kw_defaults):
        out.append(a.arg + '=' + K(d))
    if n.kwarg:
        out.append('**' + n.kwarg.arg)
    return out


def x_body(n):
    b = n.body
    if b and isinstance(b[0], ast.Expr) and isinstance(b[0].value, ast.Constant) and isinstance(b[0].value.value, str):
        b = b[1:]
    return [K(e) for e in b]


# kind: (template(list of element sources) -> program, path to container, field, extractor, joiner for slice code, min_len, elems, new elems)
def _stm(prefix, body_indent='    '):
    return lambda e: prefix + ''.join('\n' + body_indent + x for x in e)


KINDS = {
    'List.elts': (lambda e: '[' + ', '.join(e) + ']', ['body', 0, 'value'], 'elts', None, 'seq', 0),
    'Tuple.elts': (lambda e: '(' + ', '.join(e) + (',' if len(e) == 1 else '') + ')', ['body', 0, 'value'], 'elts', None, 'seq', 0),
    'Tuple.elts(bare)': (lambda e: 'x = ' + ', '.join(e) + (',' if len(e) == 1 else '') + '\ny = 1', ['body', 0, 'value'], 'elts', None, 'seq', 1),
    'Set.elts': (lambda e: '{' + ', '.join(e) + '}', ['body', 0, 'value'], 'elts', None, 'seq', 1),
    'Delete.targets': (lambda e: 'del ' + ', '.join(e), ['body', 0], 'targets', None, 'seq', 1),
    'Call.args': (lambda e: 'f(' + ', '.join(e) + ')', ['body', 0, 'value'], 'args', None, 'seq', 0),
    'Call._args': (lambda e: 'f(' + ', '.join(e) + ', k=v)', ['body', 0, 'value'], '_args', x_arglikes('args'), 'seq', 1),
    'Call.keywords': (lambda e: 'f(' + ', '.join(x + '=1' for x in e) + ')', ['body', 0, 'value'], 'keywords', None, 'kw', 0),
    'Assign.targets': (lambda e: ' = '.join(e) + ' = v', ['body', 0], 'targets', None, 'targets', 1),
    'If.body': (_stm('if t:'), ['body', 0], 'body', None, 'stmts', 1),
    'Module.body': (lambda e: '\n'.join(e), [], 'body', None, 'stmts', 0),
    'FunctionDef._body': (lambda e: 'def f():\n    """doc"""' + ''.join('\n    ' + x for x in e), ['body', 0], '_body', x_body, 'stmts', 0),
    'While.orelse': (lambda e: 'while t:\n    pass' + ('\nelse:' + ''.join('\n    ' + x for x in e) if e else ''), ['body', 0], 'orelse', None, 'stmts', 0),
    'Try.finalbody': (lambda e: 'try:\n    pass\nexcept E:\n    pass' + ('\nfinally:' + ''.join('\n    ' + x for x in e) if e else ''), ['body', 0], 'finalbody', None, 'stmts', 0),
    'Import.names': (lambda e: 'import ' + ', '.join(e), ['body', 0], 'names', None, 'seq_nc', 1),
    'ImportFrom.names': (lambda e: 'from m import ' + ', '.join(e), ['body', 0], 'names', None, 'seq_nc', 1),
    'BoolOp.values': (lambda e: ' and '.join(e), ['body', 0, 'value'], 'values', None, 'and', 2),
    'Global.names': (lambda e: 'global ' + ', '.join(e), ['body', 0], 'names', lambda n: ['s:' + x for x in n.names], 'seq_nc', 1),
    'With.items': (lambda e: 'with ' + ', '.join(e) + ': pass', ['body', 0], 'items', None, 'seq_nc', 1),
    'FunctionDef.decorator_list': (lambda e: ''.join('@' + x + '\n' for x in e) + 'def f(): pass', ['body', 0], 'decorator_list', None, 'deco', 0),
    'comprehension.ifs': (lambda e: '[i for i in j' + ''.join(' if ' + x for x in e) + ']', ['body', 0, 'value', 'generators', 0], 'ifs', None, 'ifs', 0),
    'ListComp.generators': (lambda e: '[i' + ''.join(' for ' + x + ' in ' + x + 's' for x in e) + ']', ['body', 0, 'value'], 'generators', None, 'gens', 1),
    'ClassDef.bases': (lambda e: 'class C(' + ', '.join(e) + '): pass', ['body', 0], 'bases', None, 'seq', 0),
    'ClassDef._bases': (lambda e: 'class C(' + ', '.join(e) + ', k=v): pass', ['body', 0], '_bases', x_arglikes('bases'), 'seq', 1),
    'MatchSequence.patterns': (lambda e: 'match v:\n case [' + ', '.join(e) + ']: pass', ['body', 0, 'cases', 0, 'pattern'], 'patterns', None, 'seq', 0),
    'MatchOr.patterns': (lambda e: 'match v:\n case ' + ' | '.join(x.upper() + '()' for x in e) + ': pass', ['body', 0, 'cases', 0, 'pattern'], 'patterns', None, 'or', 2),
    'MatchClass.patterns': (lambda e: 'match v:\n case C(' + ', '.join(e) + '): pass', ['body', 0, 'cases', 0, 'pattern'], 'patterns', None, 'seq', 0),
    'FunctionDef.type_params': (lambda e: 'def f' + ('[' + ', '.join(e) + ']' if e else '') + '(): pass', ['body', 0], 'type_params', None, 'seq_nc', 0),
    'Try.handlers': (lambda e: 'try:\n    pass' + ''.join('\nexcept ' + x + ':\n    pass' for x in e), ['body', 0], 'handlers', None, 'handlers', 1),
    'Match.cases': (lambda e: 'match v:' + ''.join('\n    case ' + x.upper() + '():\n        pass' for x in e), ['body', 0], 'cases', None, 'cases', 1),
    'Dict._all': (lambda e: '{' + ', '.join(x + ': ' + x for x in e) + '}', ['body', 0, 'value'], '_all', x_dict_all, 'dict', 0),
    'MatchMapping._all': (lambda e: 'match v:\n case {' + ', '.join('"' + x + '": ' + x for x in e) + '}: pass', ['body', 0, 'cases', 0, 'pattern'], '_all', x_mm_all, 'mm', 0),
    'Compare._all': (lambda e: ' < '.join(e), ['body', 0, 'value'], '_all', x_cmp_all, 'cmp', 2),
    'arguments._all': (lambda e: 'def f(' + ', '.join(e) + '): pass', ['body', 0, 'args'], '_all', x_args_all, 'seq_nc', 0),
    'Nonlocal.names': (lambda e: 'def f():\n    nonlocal ' + ', '.join(e), ['body', 0, 'body', 0], 'names', lambda n: ['s:' + x for x in n.names], 'seq_nc', 1),
    'JoinedStr.values': (lambda e: 'f"' + ''.join('{' + x + '}' for x in e) + '"', ['body', 0, 'value'], 'values', None, 'fstr', 1),
}

JOIN = {
    'seq_nc': lambda e: ', '.join(e),
    'seq': lambda e: ', '.join(e) + (',' if len(e) == 1 else ''), 'kw': lambda e: ', '.join(x + '=1' for x in e), 'targets': lambda e: ' = '.join(e) + ' =',
    'stmts': lambda e: '\n'.join(e), 'and': lambda e: ' and '.join(e), 'deco': lambda e: '\n'.join('@' + x for x in e), 'ifs': lambda e: ' '.join('if ' + x for x in e),
    'gens': lambda e: ' '.join('for ' + x + ' in ' + x + 's' for x in e), 'or': lambda e: ' | '.join(x.upper() + '()' for x in e),
    'handlers': lambda e: '\n'.join('except ' + x + ':\n    pass' for x in e), 'cases': lambda e: '\n'.join('case ' + x.upper() + '():\n    pass' for x in e),
    'dict': lambda e: '{' + ', '.join(x + ': ' + x for x in e) + '}', 'mm': lambda e: '{' + ', '.join('"' + x + '": ' + x for x in e) + '}',
    'cmp': lambda e: ' < '.join(e), 'fstr': lambda e: 'f"' + ''.join('{' + x + '}' for x in e) + '"',
}
ONE = {  # single element code
    'kw': lambda x: x + '=1', 'gens': lambda x: 'for ' + x + ' in ' + x + 's', 'or': lambda x: x.upper() + '()',
    'handlers': lambda x: 'except ' + x + ':\n    pass', 'cases': lambda x: 'case ' + x.upper() + '():\n    pass', 'dict': lambda x: '{' + x + ': ' + x + '}',
    'mm': lambda x: '{"' + x + '": ' + x + '}', 'fstr': lambda x: 'f"{' + x + '}"',
}
EMPTY_NOT_VALID_SOURCE = {'If.body', 'Module.body', 'FunctionDef._body'}   # empty bodies are legitimately left by norm=False
NOT_IMPLEMENTED_OK = {'JoinedStr.values'}
KIND_OPTS = {'Compare._all': {'op': '<'}}   # insertion into a Compare needs the operator to insert (API requirement)


def extract(kind, tree):
    tmpl, path, field, ex, jn, mn = KINDS[kind]
    node = resolve(tree, path)
    return (ex or x_field(field))(node)


def blank_rest(kind, tree):
    """dump of the tree with the container's contribution removed"""
    tmpl, path, field, ex, jn, mn = KINDS[kind]
    t = copy.deepcopy(tree)
    node = resolve(t, path)
    if field == '_all' and isinstance(node, ast.Dict):
        node.keys, node.values = [], []
    elif field == '_all' and isinstance(node, ast.MatchMapping):
        node.keys, node.patterns, node.rest = [], [], None
    elif field == '_all' and isinstance(node, ast.Compare):
        node.left, node.comparators, node.ops = None, [], []
    elif field == '_all' and isinstance(node, ast.arguments):
        for f in ('posonlyargs', 'args', 'kwonlyargs', 'kw_defaults', 'defaults'):
            setattr(node, f, [])
        node.vararg = node.kwarg = None
    elif field in ('_args', '_bases'):
        setattr(node, field[1:], [])
        node.keywords = []
    elif field == '_body':
        node.body = node.body[:1] if x_body(node) != [K(e) for e in node.body] else []
    else:
        setattr(node, field, [])
    return CTX_RE.sub('', ast.dump(t))


def get_fst(root, kind):
    tmpl, path, field, ex, jn, mn = KINDS[kind]
    return resolve(root, path), field


def idx_norm(v, L):
    return L if v == 'end' else v


def check_result(ctx, kind, root, before_rest, model, what, case):
    """Compare live tree (and reparsed source when it parses) with the model list."""
    if len(model) < KINDS[kind][5]:
        ctx.count('below_min_length_not_judged(normalisation or invalid result)')
        return True
    got = extract(kind, root.a)
    ctx.count('model_checked')
    ctx.evaluations += 1
    if got != model:
        ctx.violation(f'container-model-mismatch:{kind}', f'{what}: field is {got}, Python list model says {model}; src={root.src!r}', case)
        return False
    rest = blank_rest(kind, root.a)
    if rest != before_rest:
        ctx.violation(f'rest-of-tree-changed:{kind}', f'{what}: nodes outside the field changed; src={root.src!r}', case)
        return False
    return source_agrees(ctx, kind, root, model, what, case)


def source_agrees(ctx, kind, root, model, what, case):
    """the new source must denote the same container (checked only when the model result is a valid container)"""
    if len(model) < KINDS[kind][5] or (not model and kind in EMPTY_NOT_VALID_SOURCE):
        return True
    try:
        from ..base import refparse
        ref, _ = refparse(root.src)
        if ref is None:
            raise SyntaxError
        got = extract(kind, ref)
    except (SyntaxError, AttributeError, IndexError, TypeError):
        ctx.violation(f'source-disagrees-with-model:{kind}', f'{what}: tree holds {model} but the source does not parse to that container; src={root.src!r}', case)
        return False
    ctx.count('source_reparsed_and_compared')
    if got != model:
        ctx.violation(f'source-disagrees-with-model:{kind}', f'{what}: tree holds {model} but the source denotes {got}; src={root.src!r}', case)
        return False
    return True


def run_kind(ctx, FST, kind, rnd, lengths, names=('a', 'b', 'c', 'd', 'e')):
    tmpl, path, field, ex, jn, mn = KINDS[kind]
    names = list(names)
    for L in lengths:
        if L < mn:
            continue
        old = names[:L]
        src0 = tmpl(old)
        try:
            base = ast.parse(src0)
        except SyntaxError:
            ctx.count('kind_template_invalid')
            continue
        old_keys = extract(kind, base)
        if len(old_keys) != L + (1 if field in ('_args', '_bases') else 0):
            ctx.count('template_extract_mismatch')
        Lk = len(old_keys)
        rest0 = blank_rest(kind, base)
        for nnew in (0, 1, 2):
            new = ['x', 'y'][:nnew]
            # keys of the new elements from an independent parse of a container holding exactly them
            if nnew:
                try:
                    full = extract(kind, ast.parse(tmpl(new + (['zz', 'zy'][:max(0, mn - nnew)]))))
                    new_keys = full[:nnew]
                except SyntaxError:
                    continue
                code = JOIN[jn](new)
            else:
                new_keys, code = [], None
            rng = list(range(-Lk - 2, Lk + 3)) + ['end']
            pairs = [(a, b) for a in rng for b in rng]
            if ctx.tier == 'quick' and len(pairs) > 40:
                pairs = rnd.sample(pairs, 40)
            for start, stop in pairs:
                if ctx.out_of_time():
                    return
                a, b = idx_norm(start, Lk), idx_norm(stop, Lk)
                i0, i1, _ = slice(a, b).indices(Lk)
                rev = i1 < i0
                model = list(old_keys)
                model[i0:max(i0, i1)] = new_keys
                for ep in ('put_slice', 'put', 'view_setslice', 'view_replace'):
                    if ep != 'put_slice' and rnd.random() < 0.7:
                        continue
                    for norm in (None, True):
                        if norm and rnd.random() < 0.5:
                            continue
                        root = FST(src0, 'exec')
                        tgt, _ = get_fst(root, kind)
                        case = {'kind': kind, 'L': L, 'new': new, 'start': start, 'stop': stop, 'ep': ep, 'norm': norm, 'src': src0}
                        opts = dict(KIND_OPTS.get(kind, {}), **({} if norm is None else {'norm': norm}))
                        try:
                            if ep == 'put_slice':
                                tgt.put_slice(code, start, stop, field, **opts)
                            elif ep == 'put':
                                tgt.put(code, start, stop, field, one=False, **opts)
                            elif ep == 'view_setslice':
                                if start == 'end' or stop == 'end':
                                    continue
                                with FST.options(**opts):
                                    if code is None:
                                        del getattr(tgt, field)[start:stop]
                                    else:
                                        getattr(tgt, field)[start:stop] = code
                            else:
                                if start == 'end' or stop == 'end':
                                    continue
                                with FST.options(**opts):
                                    v = getattr(tgt, field)[start:stop]
                                    v.replace(code, one=False) if code is not None else v.remove()
                        except NotImplementedError:
                            ctx.count('not_implemented(documented)')
                            continue
                        except Exception as e:
                            if 'not implemented' in str(e).lower():
                                ctx.count('not_implemented(documented)')
                                continue
                            if rev:
                                ctx.count('reversed_bounds_refused')
                                continue
                            # refusal acceptable iff the model result is not valid here
                            if len(model) < mn or not model_valid(kind, model, old, new, i0, i1):
                                ctx.count('refused_model_result_invalid')
                                continue
                            ctx.count('refused_valid_request')
                            ctx.violation(f'valid-request-refused:{kind}', f'{ep}({code!r}, {start}, {stop}, {field!r}) {opts} on {src0!r} refused: {type(e).__name__}: {e}; model result {model} is valid', case)
                            continue
                        ctx.cell(kind, 'slice', ep, 'rev' if rev else 'neg' if (isinstance(start, int) and start < 0) or (isinstance(stop, int) and stop < 0) else 'oob' if (isinstance(stop, int) and stop > Lk) else 'end' if 'end' in (start, stop) else 'in', nnew)
                        if rev:
                            ctx.count('reversed_bounds_accepted')
                        check_result(ctx, kind, root, rest0, model, f'{ep}({code!r}, {start}, {stop}) on {src0!r}', case)
        # single index ops through entry-point classes
        for idx in list(range(-Lk, Lk)):
            single_classes(ctx, FST, kind, src0, old_keys, rest0, idx, rnd)
        insert_classes(ctx, FST, kind, src0, old_keys, rest0, rnd)
        subview_classes(ctx, FST, kind, src0, old_keys, rest0, rnd)
    if len(ctx.samples) < 6:
        ctx.sample({'kind': kind, 'template': KINDS[kind][0](['a', 'b', 'c']), 'lengths': list(lengths)})


def model_valid(kind, model, old, new, i0, i1):
    """Is the model result valid Python for this container? Rebuild source from element names via the template."""
    tmpl, path, field, ex, jn, mn = KINDS[kind]
    if field in ('_args', '_bases'):
        seen_kw = False
        for k in model:
            if k.startswith('keyword('):
                seen_kw = True
            elif seen_kw and not k.startswith('Starred('):
                return False   # positional after keyword: ordering rule, refusal is correct (C12)
        return True
    elems = list(old)
    elems[i0:max(i0, i1)] = new
    try:
        ast.parse(tmpl(elems))
        return True
    except SyntaxError:
        return False


def model_keys_valid(kind, model):
    field = KINDS[kind][2]
    if field in ('_args', '_bases'):
        seen_kw = False
        for k in model:
            if k.startswith('keyword('):
                seen_kw = True
            elif seen_kw and not k.startswith('Starred('):
                return False
    return True


def one_code(kind, name):
    jn = KINDS[kind][4]
    return ONE.get(jn, lambda x: x)(name)


def single_classes(ctx, FST, kind, src0, old_keys, rest0, idx, rnd):
    tmpl, path, field, ex, jn, mn = KINDS[kind]
    Lk = len(old_keys)
    try:
        newk = extract(kind, ast.parse(tmpl(['x'] + ['zz', 'zy'][:max(0, mn - 1)])))[0]
    except SyntaxError:
        return
    code = one_code(kind, 'x')
    # replace class
    want = list(old_keys)
    want[idx] = newk
    outs = {}
    for ep in ('put', 'setitem', 'replace', 'put_slice_one'):
        root = FST(src0, 'exec')
        tgt, _ = get_fst(root, kind)
        try:
            if ep == 'put':
                tgt.put(code, idx, field=field)
            elif ep == 'setitem':
                getattr(tgt, field)[idx] = code
            elif ep == 'replace':
                c = getattr(tgt, field)[idx]
                if not isinstance(c, FST) or field.startswith('_'):
                    continue
                c.replace(code)
            else:
                tgt.put_slice(code, idx, (idx + 1) or 'end', field, one=True)
            outs[ep] = extract(kind, root.a)
            ctx.count('model_checked')
            ctx.evaluations += 1
            if outs[ep] == want:
                source_agrees(ctx, kind, root, want, f'single {ep} idx {idx} on {src0!r}', {'kind': kind, 'src': src0, 'ep': ep, 'idx': idx})
            if blank_rest(kind, root.a) != rest0:
                ctx.violation(f'rest-of-tree-changed:{kind}', f'single {ep} idx {idx} on {src0!r}; src={root.src!r}', {'kind': kind, 'src': src0, 'ep': ep, 'idx': idx})
        except NotImplementedError:
            ctx.count('not_implemented(documented)')
        except Exception as e:
            if 'not implemented' in str(e).lower():
                ctx.count('not_implemented(documented)')
            else:
                outs[ep] = ('EXC', type(e).__name__, str(e)[:80])
    ctx.count('entry_point_classes')
    ctx.cell(kind, 'single-replace', 'neg' if idx < 0 else 'pos')
    for ep, got in outs.items():
        if got != want:
            ctx.violation(f'single-put-differs:{kind}:{ep}', f'{ep} of {code!r} at index {idx} on {src0!r}: {got}, expected {want} (all entry points: {outs})', {'kind': kind, 'src': src0, 'ep': ep, 'idx': idx})
            break
    # delete class
    want = list(old_keys)
    del want[idx]
    outs = {}
    for ep in ('delitem', 'remove', 'put_none', 'put_slice_none', 'view_remove', 'delslice'):
        root = FST(src0, 'exec')
        tgt, _ = get_fst(root, kind)
        try:
            if ep == 'delitem':
                del getattr(tgt, field)[idx]
            elif ep == 'remove':
                c = getattr(tgt, field)[idx]
                if not isinstance(c, FST) or field.startswith('_'):
                    continue
                c.remove()
            elif ep == 'put_none':
                tgt.put(None, idx, field=field)
            elif ep == 'put_slice_none':
                tgt.put_slice(None, idx, (idx + 1) or 'end', field)
            elif ep == 'view_remove':
                if idx == -1:
                    continue
                getattr(tgt, field)[idx:idx + 1].remove()
            else:
                if idx == -1:
                    continue
                del getattr(tgt, field)[idx:idx + 1]
            if len(want) < mn:
                ctx.count('below_min_length_not_judged(normalisation or invalid result)')
                continue
            outs[ep] = extract(kind, root.a)
            ctx.count('model_checked')
            ctx.evaluations += 1
            if blank_rest(kind, root.a) != rest0:
                ctx.violation(f'rest-of-tree-changed:{kind}', f'delete {ep} idx {idx} on {src0!r}; src={root.src!r}', {'kind': kind, 'src': src0, 'ep': ep, 'idx': idx})
        except NotImplementedError:
            ctx.count('not_implemented(documented)')
        except Exception as e:
            if 'not implemented' in str(e).lower():
                ctx.count('not_implemented(documented)')
            else:
                outs[ep] = ('EXC', type(e).__name__, str(e)[:80])
    ctx.count('entry_point_classes')
    ctx.cell(kind, 'single-delete', 'neg' if idx < 0 else 'pos')
    vals = [v for v in outs.values()]
    excs = [v for v in vals if isinstance(v, tuple)]
    if excs and len(excs) == len(vals) and len(want) < max(mn, 1):
        ctx.count('refused_model_result_invalid')
        return
    for ep, got in outs.items():
        if got != want:
            if isinstance(got, tuple) and len(want) < mn:
                continue
            ctx.violation(f'single-delete-differs:{kind}:{ep}', f'{ep} at index {idx} on {src0!r}: {got}, expected {want} (all entry points: {outs})', {'kind': kind, 'src': src0, 'ep': ep, 'idx': idx})
            break


def insert_classes(ctx, FST, kind, src0, old_keys, rest0, rnd):
    tmpl, path, field, ex, jn, mn = KINDS[kind]
    Lk = len(old_keys)
    try:
        newk = extract(kind, ast.parse(tmpl(['x'] + ['zz', 'zy'][:max(0, mn - 1)])))[0]
        new2 = extract(kind, ast.parse(tmpl(['x', 'y'])))[:2]
    except SyntaxError:
        return
    code = one_code(kind, 'x')
    code2 = JOIN[jn](['x', 'y'])
    plans = []
    for i in list(range(-Lk - 1, Lk + 2)) + ['end']:
        ii = Lk if i == 'end' else i
        m = list(old_keys)
        m.insert(ii, newk)
        plans.append((('insert', i), m, [('node.insert', lambda t, v, i=i: t.insert(code, i, field)), ('view.insert', lambda t, v, i=i: v.insert(code, i) if i != 'end' else v.insert(code, 'end')),
                                          ('put_slice', lambda t, v, i=i: t.put_slice(code, i, i, field, one=True))]))
    plans.append((('append',), old_keys + [newk], [('node.append', lambda t, v: t.append(code, field)), ('view.append', lambda t, v: v.append(code)), ('put_slice', lambda t, v: t.put_slice(code, 'end', 'end', field, one=True))]))
    plans.append((('prepend',), [newk] + old_keys, [('node.prepend', lambda t, v: t.prepend(code, field)), ('view.prepend', lambda t, v: v.prepend(code)), ('put_slice', lambda t, v: t.put_slice(code, 0, 0, field, one=True))]))
    plans.append((('extend',), old_keys + new2, [('node.extend', lambda t, v: t.extend(code2, field)), ('view.extend', lambda t, v: v.extend(code2)), ('put_slice', lambda t, v: t.put_slice(code2, 'end', 'end', field))]))
    plans.append((('prextend',), new2 + old_keys, [('node.prextend', lambda t, v: t.prextend(code2, field)), ('view.prextend', lambda t, v: v.prextend(code2)), ('put_slice', lambda t, v: t.put_slice(code2, 0, 0, field))]))
    for what, want, eps in plans:
        outs = {}
        for name, fn in eps:
            root = FST(src0, 'exec')
            tgt, _ = get_fst(root, kind)
            try:
                with FST.options(**KIND_OPTS.get(kind, {})):
                    fn(tgt, getattr(tgt, field))
                outs[name] = extract(kind, root.a)
                ctx.count('model_checked')
                ctx.evaluations += 1
                if outs[name] == want:
                    source_agrees(ctx, kind, root, want, f'{what} via {name} on {src0!r}', {'kind': kind, 'src': src0, 'ep': name, 'what': list(what)})
                if blank_rest(kind, root.a) != rest0:
                    ctx.violation(f'rest-of-tree-changed:{kind}', f'{what} via {name} on {src0!r}; src={root.src!r}', {'kind': kind, 'src': src0, 'ep': name, 'what': list(what)})
            except NotImplementedError:
                ctx.count('not_implemented(documented)')
            except Exception as e:
                if 'not implemented' in str(e).lower():
                    ctx.count('not_implemented(documented)')
                else:
                    outs[name] = ('EXC', type(e).__name__, str(e)[:80])
        ctx.count('entry_point_classes')
        if outs and all(isinstance(v, tuple) for v in outs.values()) and not model_keys_valid(kind, want):
            ctx.count('refused_model_result_invalid')
            continue
        ctx.cell(kind, what[0], 'oob' if len(what) > 1 and isinstance(what[1], int) and not -Lk <= what[1] <= Lk else 'in')
        for name, got in outs.items():
            if got != want:
                ctx.violation(f'insert-differs:{kind}:{what[0]}:{name}', f'{what} via {name} on {src0!r}: {got}, expected {want} (all: {outs})', {'kind': kind, 'src': src0, 'ep': name, 'what': list(what)})
                break


def subview_classes(ctx, FST, kind, src0, old_keys, rest0, rnd):
    """operations on sub-views view[s:e] follow list semantics on the sub-list, re-based into the field"""
    tmpl, path, field, ex, jn, mn = KINDS[kind]
    Lk = len(old_keys)
    try:
        newk = extract(kind, ast.parse(tmpl(['x'] + ['zz', 'zy'][:max(0, mn - 1)])))[0]
    except SyntaxError:
        return
    code = one_code(kind, 'x')
    rng = range(-Lk - 1, Lk + 2)
    trials = [(s_, e_) for s_ in rng for e_ in rng]
    rnd.shuffle(trials)
    for s_, e_ in trials[:6]:
        i0, i1, _ = slice(s_, e_).indices(Lk)
        if i1 < i0:
            continue
        sub = old_keys[i0:i1]
        n = len(sub)
        ops = []
        for idx in (-n - 3, -n - 1, -n, -1, 0, 1, n, n + 2):
            m = list(sub)
            m.insert(idx, newk)
            ops.append((f'insert({idx})', m, lambda v, idx=idx: v.insert(code, idx)))
        ops.append(('append', sub + [newk], lambda v: v.append(code)))
        ops.append(('prepend', [newk] + sub, lambda v: v.prepend(code)))
        if n:
            for idx in (0, -1, n - 1, -n):
                m = list(sub)
                m[idx] = newk
                ops.append((f'setitem({idx})', m, lambda v, idx=idx: v.__setitem__(idx, code)))
                m = list(sub)
                del m[idx]
                ops.append((f'delitem({idx})', m, lambda v, idx=idx: v.__delitem__(idx)))
        ops.append(('remove', [], lambda v: v.remove()))
        rnd.shuffle(ops)
        for name, subm, fn in ops[:5]:
            want = old_keys[:i0] + subm + old_keys[i1:]
            root = FST(src0, 'exec')
            tgt, _ = get_fst(root, kind)
            case = {'kind': kind, 'src': src0, 'subview': [s_, e_], 'op': name}
            try:
                with FST.options(**KIND_OPTS.get(kind, {})):
                    fn(getattr(tgt, field)[s_:e_])
            except NotImplementedError:
                ctx.count('not_implemented(documented)')
                continue
            except Exception as e:
                if 'not implemented' in str(e).lower():
                    ctx.count('not_implemented(documented)')
                elif len(want) < mn or not model_keys_valid(kind, want):
                    ctx.count('refused_model_result_invalid')
                else:
                    ctx.violation(f'valid-request-refused:{kind}', f'view[{s_}:{e_}].{name} on {src0!r} refused: {type(e).__name__}: {e}; model result {want}', case)
                continue
            ctx.count('subview_ops')
            ctx.cell(kind, 'subview', name.split('(')[0], 'oob' if 'insert' in name and not (-n <= int(name[7:-1]) <= n) else 'in')
            check_result(ctx, kind, root, rest0, want, f'view[{s_}:{e_}].{name} on {src0!r}', case)


def run_layouts(ctx, FST, rnd):
    """same op on LAYOUT variants of target ends in the same structure"""
    from .. import corpus
    kinds = [k for k in KINDS if k not in NOT_IMPLEMENTED_OK]
    kind = rnd.choice(kinds)
    tmpl, path, field, ex, jn, mn = KINDS[kind]
    L = rnd.randint(max(mn, 1), 4)
    src0 = tmpl(['a', 'b', 'c', 'd'][:L])
    variants = [src0]
    for _ in range(3):
        v, applied = corpus.relayout(src0, rnd, kinds=['comments', 'parens', 'continuation', 'comment_lines', 'unicode'][:4], n=2)
        if applied:
            variants.append(v)
    # hand layout: one element per line inside brackets
    if '(' in src0 or '[' in src0 or '{' in src0:
        v = re.sub(r', ', ',  # c\n      ', src0)
        try:
            if CTX_RE.sub('', ast.dump(ast.parse(v))) == CTX_RE.sub('', ast.dump(ast.parse(src0))):
                variants.append(v)
        except SyntaxError:
            pass
    # staircase: every element on its own line, each line indented LESS than the one before (a later element at a smaller column)
    parts = src0.split(', ')
    if len(parts) > 1 and ('(' in src0 or '[' in src0 or '{' in src0):
        v = parts[0] + ''.join(',\n' + ' ' * max(1, 13 - 4 * i) + q for i, q in enumerate(parts[1:]))
        try:
            if CTX_RE.sub('', ast.dump(ast.parse(v))) == CTX_RE.sub('', ast.dump(ast.parse(src0))):
                variants.append(v)
        except SyntaxError:
            pass
    # comment glued to the end of the container's first line
    ls = src0.split('\n')
    v = '\n'.join([ls[0] + '# tight'] + ls[1:])
    try:
        if CTX_RE.sub('', ast.dump(ast.parse(v))) == CTX_RE.sub('', ast.dump(ast.parse(src0))):
            variants.append(v)
    except SyntaxError:
        pass
    if len(variants) < 2:
        return
    Lk = len(extract(kind, ast.parse(src0)))
    start = rnd.randint(-Lk, Lk)
    stop = rnd.choice([rnd.randint(-Lk, Lk), 'end'])
    new = ['x', 'y'][:rnd.randint(0, 2)]
    code = JOIN[jn](new) if new else None
    codes = [code]
    if code and '\n' not in code and jn == 'seq' and kind in ('List.elts', 'Tuple.elts', 'Set.elts', 'Call.args', 'Tuple.elts(bare)'):
        codes.append(code.replace(', ', ',  # nc\n'))
        codes.append(code.replace(', ', ',\n'))
    outs = []
    for v in variants:
        for c in codes:
            root = FST(v, 'exec')
            tgt, _ = get_fst(root, kind)
            try:
                tgt.put_slice(c, start, stop, field)
                outs.append((v, c, CTX_RE.sub('', ast.dump(root.a))))
                m = extract(kind, root.a)
                source_agrees(ctx, kind, root, m, f'put_slice({c!r}, {start}, {stop}) on layout variant {v!r}', {'kind': kind, 'variants': [v], 'codes': [c], 'start': start, 'stop': stop})
            except Exception as e:
                outs.append((v, c, 'EXC:' + type(e).__name__))
    # arglike containers: a single-element put that switches an element between positional and keyword, on every layout
    if field in ('_args', '_bases'):
        for v in variants:
            n_el = len(extract(kind, ast.parse(v)))
            for idx in range(n_el):
                for c in ('zk=0', 'zp', '*zs', '**zd'):
                    root = FST(v, 'exec')
                    tgt, _ = get_fst(root, kind)
                    try:
                        tgt.put(c, idx, field=field)
                    except Exception:
                        ctx.count('arglike_kind_switch_refused')
                        continue
                    ctx.count('arglike_kind_switch_puts')
                    cs = {'kind': kind, 'variants': [v], 'codes': [c], 'start': idx, 'stop': idx + 1, 'single': True}
                    if source_agrees(ctx, kind, root, extract(kind, root.a), f'put({c!r}, {idx}, {field!r}) on layout variant {v!r}', cs):
                        from ..base import insync
                        ok, detail = insync(root)
                        if ok is False:   # e.g. args / keywords lists no longer in source order
                            ctx.violation(f'tree-out-of-sync-after-arglike-put:{kind}', f'put({c!r}, {idx}, {field!r}) on {v!r}: tree and source disagree ({detail}); src={root.src!r}', cs)
    # every successful variant must also be in sync with its own source
    ctx.count('layout_variant_groups')
    ctx.count('model_checked', len(outs))
    ctx.evaluations += len(outs)
    ctx.cell(kind, 'layout', len(variants))
    if len({o[2] for o in outs}) > 1:
        ctx.violation(f'structure-depends-on-layout:{kind}', f'put_slice({code!r}, {start}, {stop}) gives different structures on layout variants: ' + ' || '.join(f'{o[0]!r}/{o[1]!r} -> {o[2][:120]}' for o in outs[:4]),
                      {'kind': kind, 'variants': variants, 'codes': codes, 'start': start, 'stop': stop})


def run(ctx):
    from fst import FST
    kinds = list(KINDS)
    lengths = (0, 1, 2, 3) if ctx.tier == 'quick' else (0, 1, 2, 3, 4, 5)
    for i, kind in enumerate(kinds):
        if ctx.mine(i):
            run_kind(ctx, FST, kind, ctx.rnd, lengths)
    for i, kind in enumerate(kinds):
        if ctx.mine(i + 7) and not ctx.out_of_time():
            run_kind(ctx, FST, kind, ctx.rnd, (3,) if ctx.tier == 'quick' else (2, 4), names=('é', 'üb', 'c', '蟒', 'ñe'))
            ctx.count('multibyte_name_runs')
    # spare time: layout variants + random re-runs of kinds with other seeds
    while not ctx.out_of_time():
        run_layouts(ctx, FST, ctx.rnd)
        if ctx.rnd.random() < 0.05:
            run_kind(ctx, FST, ctx.rnd.choice(kinds), ctx.rnd, (ctx.rnd.randint(0, 4),))


def replay(ctx, case):
    from fst import FST
    import random
    if 'kind' in case and 'variants' not in case:
        run_kind(ctx, FST, case['kind'], random.Random(0), (case.get('L', 3),) if 'L' in case else (0, 1, 2, 3))
    elif 'variants' in case:
        kind = case['kind']
        field = KINDS[kind][2]
        for v in case['variants']:
            for c in case['codes']:
                root = FST(v, 'exec')
                tgt, _ = get_fst(root, kind)
                try:
                    if case.get('single'):
                        tgt.put(c, case['start'], field=field)
                    else:
                        tgt.put_slice(c, case['start'], case['stop'], field)
                except Exception as e:
                    print('raised', type(e).__name__, e)
                    continue
                print(repr(v), repr(c), '->', repr(root.src))
                if source_agrees(ctx, kind, root, extract(kind, root.a), 'replay', case):
                    from ..base import insync
                    ok, detail = insync(root)
                    if ok is False:
                        ctx.violation('replayed-out-of-sync', f'{detail}', case)
