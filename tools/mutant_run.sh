#!/bin/bash
# usage: tools/mutant_run.sh <patch-or-sed-script> <PROP> [extra env]   -- applies a patch to a scratch worktree and runs the check against it
set -e
WT=$(mktemp -d /tmp/pfst_mut.XXXXXX); rmdir $WT
git -C /repo worktree add -q --detach $WT HEAD
VO=$(mktemp -d /tmp/pfst_mutout.XXXXXX)
trap "git -C /repo worktree remove --force $WT; rm -rf $VO" EXIT
if [ -f "$1" ]; then git -C $WT apply "$1"; else (cd $WT && eval "$1"); fi
git -C $WT diff --stat | tail -1
shift
for P in "$@"; do VERIF_OUT=$VO VERIF_REPO_SRC=$WT/src VERIF_BUDGET=${VERIF_BUDGET:-30} /verif/check $P 2>&1 | cut -c1-500 | grep -v "^\[C" | head -${LINES_OUT:-6}; done
