#!/usr/bin/env python3
"""setup: nothing to build (pure-Python harness); verify the interpreter and that pfst imports from /repo/src."""
import os, subprocess, sys
py = os.environ.get('VERIF_PYTHON', '/venv/bin/python')
src = os.environ.get('VERIF_REPO_SRC', '/repo/src')
r = subprocess.run([py, '-W', 'ignore', '-c', 'import fst, sys; print(fst.__file__, sys.version.split()[0])'],
                   env=dict(os.environ, PYTHONPATH=src), capture_output=True, text=True)
print(r.stdout.strip(), r.stderr.strip()[-300:])
sys.exit(0 if r.returncode == 0 and src in r.stdout else 1)
