"""Edit-sequence workload (W1): generates replayable structured-edit steps over the public API of pfst.

A step is a plain dict (JSON-able). Targets are addressed by a path over the *pure AST* (list of [field, idx|None])
computed by this module, not by pfst's child_path. Code is always rebuilt from its source text + kind, so a recorded step
replays exactly.
"""

import ast

from .base import S

EXPR_SLOT_SKIP_FIELDS = {'func', 'slice', 'annotation', 'returns', 'decorator_list', 'bases', 'type_params',
                         'optional_vars', 'target', 'targets', 'cls', 'key', 'format_spec', 'bound', 'default_value',
                         'keys', 'defaults', 'kw_defaults', 'context_expr'}


def index_tree(root_ast):
    """[(node, parent, field, idx, path)] for all nodes below root, pure-AST walk."""
    out = []

    def rec(node, path):
        for field, val in ast.iter_fields(node):
            if isinstance(val, ast.AST):
                p = path + [[field, None]]
                out.append((val, node, field, None, p))
                rec(val, p)
            elif isinstance(val, list):
                for i, v in enumerate(val):
                    if isinstance(v, ast.AST):
                        p = path + [[field, i]]
                        out.append((v, node, field, i, p))
                        rec(v, p)
    rec(root_ast, [])
    return out


def resolve(root_ast, path):
    n = root_ast
    for field, idx in path:
        n = getattr(n, field)
        if idx is not None:
            n = n[idx]
    return n


def _in_ctx(anc_types, stop=()):
    pass


def kind_of(node, parent, field, ancestors):
    """Kind key: donors of the same kind are plausible replacements. None = not used as a target."""
    if any(isinstance(x, (ast.JoinedStr, ast.FormattedValue)) or type(x).__name__ in ('TemplateStr', 'Interpolation')
           for x in ancestors):
        return None
    if isinstance(node, ast.stmt):
        return 'stmt'
    if isinstance(node, ast.ExceptHandler):
        return 'handler'
    if isinstance(node, ast.match_case):
        return 'case'
    if isinstance(node, ast.pattern):
        return 'pattern'
    if isinstance(node, ast.expr):
        if any(isinstance(x, ast.pattern) for x in ancestors):
            return None
        if isinstance(node, (ast.JoinedStr,)) or type(node).__name__ == 'TemplateStr':
            return 'expr' if field not in EXPR_SLOT_SKIP_FIELDS else None
        if isinstance(node, ast.Slice):
            return None
        if isinstance(node, ast.Starred):
            return 'starred'
        ctx = getattr(node, 'ctx', None)
        if isinstance(ctx, (ast.Store, ast.Del)):
            return 'target'
        if isinstance(parent, ast.Dict):
            return 'dictval' if field == 'values' else None
        if field in EXPR_SLOT_SKIP_FIELDS:
            return 'expr1' if field in ('func', 'annotation', 'returns', 'context_expr', 'key', 'bound', 'decorator_list', 'bases') else None
        if isinstance(parent, (ast.Attribute, ast.Subscript)):
            return 'expr1'
        if isinstance(parent, (ast.keyword, ast.withitem)):
            return 'expr1'
        return 'expr'
    if isinstance(node, ast.keyword):
        return 'keyword'
    if isinstance(node, ast.alias):
        return 'alias_from' if isinstance(parent, ast.ImportFrom) else 'alias_import'
    if isinstance(node, ast.withitem):
        return 'withitem'
    if isinstance(node, ast.comprehension):
        return 'comprehension'
    if isinstance(node, ast.arg):
        return 'arg'
    if isinstance(node, ast.type_param):
        return 'type_param'
    return None


KIND_MODE = {
    'stmt': 'stmt', 'handler': 'ExceptHandler', 'case': 'match_case', 'pattern': 'pattern', 'expr': 'expr',
    'expr1': 'expr', 'dictval': 'expr', 'target': 'expr', 'starred': 'expr', 'keyword': 'keyword',
    'alias_from': 'ImportFrom_name', 'alias_import': 'Import_name', 'withitem': 'withitem',
    'comprehension': 'comprehension', 'arg': 'arg', 'type_param': 'type_param',
}

GRAMMAR_CODE = {
    'expr': ['zz', 'a + b', 'a if b else c', 'lambda q: q', '(yield)', 'a, b', '(c, d)', 'f(x)\n.g', '[1,\n 2]',
             'not a', 'a or b', 'x := 1', 'await w', '-a ** b', 'a < b < c', '"s" "t"', '*st', '{**d}', '(i for i in j)',
             'a.b[c]', 'f"{x}"', '1 .real', 'yield z', 'yield from z', '(\n a\n)', 'a # c\n+ b', '"""m\nl"""',
             'é, ü', '"日本", z', 'ñ if ü else é', '"é" "ü"', 'é.ü(ñ)', 'lambda é: "日本"', 'é\n, ü', '[é,\n "日本"]',
             # irregular continuation-line indentation (deeper, then shallower than the elements): exercises re-indentation of put code
             '[\n        a,\n        (b,\n  c),\n]', '(a,\n            b,\n c)', 'f(\n            x,\n  y)', '{\n      k: v,\n   **w,\n          j: u}',
             '[\n        a,\n        (b,\n  c),\n], [\n     d,\n e]', 'f(\n        a)(\n   b)'],
    'expr1': ['nm', 'a.b', 'f(x)', '(a + b)', 'a[0]', '(lambda: 0)', 'a if b else c', 'x or y', 'await z', '-n', '[e]'],
    'dictval': ['vv', 'a + b', 'lambda: 0', 'a if b else c', '(x, y)'],
    'target': ['tgt', 't.attr', 't[0]', '(p, q)', '[p, *q]', 'é, ü', 'ñ.é', '(\n   p,\n q)'],
    'starred': ['*s2', '*(a or b)', 'plain'],
    'stmt': ['pass', 'x = 1', 'if c:\n    d\nelse:\n    e', 'for i in j: pass', 'def g(): return 1', 'return', 'a; b',
             'with a as b:\n    # cmt\n    pass', 'class K: pass', '@d\ndef h(a=1): pass', 'try: pass\nfinally: pass',
             'x: int = 2', 'del q', 'import m', 'while t: break', '"""doc"""', 'a = b  # trailing', '# lead\nz = 1',
             'async def ag(): await k', 'match m:\n    case 1: pass', 'raise E from c', 'global gg', 'assert t, m',
             'if u: pass\nelif v: pass', 'é = "日本", ü  # ñ', 'ü: int = é'],
    'handler': ['except E as e: pass', 'except (A, B):\n    raise', 'except: pass'],
    'case': ['case 1: pass', 'case [a, *b] if b:\n    pass', 'case {"k": v}: pass', 'case _: pass'],
    'pattern': ['é, ü', '"日本" | ü', '1', 'x', '[a, b]', 'C(p, q=r)', 'a | b', '{"k": v, **r}', '(u as w)', '*s', 'None', 'a.b', '-1'],
    'keyword': ['k=1', '**kw', 'k = a or b', 'k=(yield)'],
    'alias_from': ['n1', 'n2 as m2'],
    'alias_import': ['p.q', 'p.q as r', 's'],
    'withitem': ['w1', 'w2 as (a, b)', 'f() as g', '(u, v)'],
    'comprehension': ['for u in v', 'for a, b in c if a if b', 'async for q in r'],
    'arg': ['a1', 'a2: int'],
    'type_param': ['U', '*Us', '**Q', 'V: int'],
}

OPT_TABLE = [
    ('trivia', [False, 'all', (), True, 'block+1', ('all', 'line'), (False, 'all'), 'none+', ('block', 'block')]),
    ('pars', [True]),
    ('pep8space', [False, 1]),
    ('elif_', [False]),
    ('docstr', [False, 'strict']),
    ('pars_walrus', [True, None]),
    ('pars_arglike', [False, None]),
    ('op_side', ['right']),
    ('set_norm', ['call']),
    ('coerce', [False]),
]


def gen_opts(rnd, norm=True, p=0.35):
    opts = {}
    if norm is not None:
        opts['norm'] = norm
    if rnd.random() < p:
        for _ in range(rnd.choice([1, 1, 2])):
            name, vals = rnd.choice(OPT_TABLE)
            opts[name] = rnd.choice(vals)
    return opts


def opts_from_json(o):
    out = {}
    for k, v in o.items():
        out[k] = tuple(v) if isinstance(v, list) else v
    return out


# ----------------------------------------------------------------------------------------------------------------------

SINGLE_OPS = ['replace', 'put', 'assign', 'put_slice_one']
DELETE_OPS = ['remove', 'delitem', 'put_none', 'put_slice_none', 'view_remove']
INSERT_OPS = ['insert', 'append', 'prepend', 'extend', 'prextend', 'put_slice', 'setslice', 'view_insert', 'view_append']
MOVE_OPS = ['cut', 'get_cut', 'get_slice_cut', 'view_cut']
STMT_OPS = ['put_line_comment', 'put_docstr']
PAR_OPS = ['par', 'unpar']


class StepNotApplicable(Exception):
    pass



def candidates(root_ast):
    out = []
    anc = {id(root_ast): []}
    for node, parent, field, idx, path in index_tree(root_ast):
        a = anc[id(parent)] + [parent]
        anc[id(node)] = a
        k = kind_of(node, parent, field, a)
        if k:
            out.append((node, parent, field, idx, path, k))
    return out


def donor_codes(donor_root, kinds_needed, rnd, limit=40):
    """{kind: [code_src,...]} from a donor FST tree (copies' source)."""
    out = {}
    cands = candidates(donor_root.a)
    rnd.shuffle(cands)
    for node, parent, field, idx, path, k in cands:
        if k in ('target', 'starred'):
            continue
        kk = 'expr' if k in ('expr1', 'dictval') else k
        lst = out.setdefault(kk, [])
        if len(lst) >= limit:
            continue
        try:
            lst.append(node.f.copy().src)
        except Exception:
            pass
    return out


def op_is_comment(ops):
    return 'put_line_comment' in ops


def gen_step(rnd, root, donors, weights=None, norm=True, ops=None, with_par=False, kinds=None, cand=None, op=None, code=None, form=None):
    """Pick a target and an op (or use the given candidate index `cand` / operation `op`: table-driven workloads). Returns step dict or None."""
    cands = candidates(root.a)
    if kinds:
        cands = [c for c in cands if c[5] in kinds]
    if not cands:
        return None
    forced_op = op
    # inverse-frequency weighting over (type, field) cells
    if cand is not None:
        if cand >= len(cands):
            return None
        node, parent, field, idx, path, kind = cands[cand]
    elif weights is not None:
        def w(c):
            return 1.0 / (1 + weights.get((type(c[0]).__name__, c[2]), 0))
        tot = [w(c) for c in cands]
        node, parent, field, idx, path, kind = rnd.choices(cands, tot)[0]
        weights[(type(node).__name__, field)] = weights.get((type(node).__name__, field), 0) + 1
    else:
        node, parent, field, idx, path, kind = rnd.choice(cands)
    in_list = idx is not None
    pool = list(SINGLE_OPS) * 2
    if in_list:
        pool += DELETE_OPS + INSERT_OPS * 2 + MOVE_OPS
    else:
        pool += ['remove', 'put_none', 'cut']
    if kind == 'stmt':
        pool += STMT_OPS
    if with_par == 'redundant':
        if kind in ('expr', 'expr1', 'dictval', 'target') and getattr(node.f.pars(), 'n', 0):
            pool += ['unpar_redundant'] * 12   # only offered where there are grouping parentheses at all
    elif with_par and kind in ('expr', 'expr1', 'dictval', 'target', 'pattern'):
        pool += PAR_OPS
    if ops:
        pool = [o for o in pool if o in ops] or pool
        if op_is_comment(ops):
            step_code_pool = ['cm', '# a much longer comment text', 'é', 'x']
    op = rnd.choice(pool)
    if forced_op is not None:
        if forced_op not in pool:
            return None   # operation not applicable to this target
        op = forced_op
    forced_form = form
    form = forced_form or rnd.choice(['src', 'ast', 'fst'])
    ckind = 'expr' if kind in ('expr1', 'dictval') else kind
    src_pool = GRAMMAR_CODE.get(kind, []) + (donors.get(ckind, []) if kind not in ('target', 'starred') else [])
    code_src = rnd.choice(src_pool) if src_pool else 'zz'
    if code is not None:
        code_src = code
    step = {'path': path, 'kind': kind, 'op': op, 'form': form, 'code': code_src, 'opts': gen_opts(rnd, norm),
            'ttype': type(node).__name__, 'ptype': type(parent).__name__, 'field': field,
            'anc': [type(resolve(root.a, path[:i])).__name__ for i in range(len(path))],
            'gptype': type(resolve(root.a, path[:-2])).__name__ if len(path) >= 2 else None}
    if op in ('put_slice', 'setslice', 'get_slice_cut', 'view_cut', 'put_slice_none', 'view_remove'):
        step['n'] = rnd.choice([0, 1, 1, 2, 3])
    if op in ('extend', 'prextend', 'put_slice', 'setslice') and rnd.random() < 0.6:
        # multi-element code: several donors joined the way that container is written
        k2 = rnd.choice([1, 2, 3])
        more = [rnd.choice(src_pool) for _ in range(k2)] if src_pool else ['zz']
        step['multi'] = more
    if op == 'put_line_comment':
        step['code'] = rnd.choice([None, 'cm', '# cm2', 'é comment', '', 'a much longer comment than before', 'x'])
    if op == 'put_docstr':
        step['code'] = rnd.choice([None, 'doc', 'multi\nline\n', 'quote " \' \\ é', '"""'])
    return step


def make_code(step, FST, which=None):
    """Build the code object from its source text + kind + form (fresh each time)."""
    kind, form, src = step['kind'], step['form'], step['code'] if which is None else which
    mode = KIND_MODE[kind]
    if form == 'src':
        return src
    if form == 'ast':
        # independent of pfst where Python can parse the fragment itself
        if mode == 'expr':
            try:
                m = ast.parse('(\n' + src + '\n)')
                return m.body[0].value
            except SyntaxError:
                pass
        elif mode == 'stmt':
            try:
                m = ast.parse(src)
                if len(m.body) == 1:
                    return m.body[0]
            except SyntaxError:
                pass
        return FST(src, mode).a
    return FST(src, mode)


def join_multi(step):
    kind = step['kind']
    parts = step['multi']
    if kind == 'stmt':
        return '\n'.join(parts), 'stmts'
    if kind in ('handler',):
        return '\n'.join(parts), '_ExceptHandlers'
    if kind == 'case':
        return '\n'.join(parts), '_match_cases'
    if kind == 'comprehension':
        return ' '.join(parts), '_comprehensions'
    if kind in ('expr', 'expr1', 'dictval', 'target', 'starred'):
        if any('\n' in p or p.startswith(('yield', 'lambda')) or ' if ' in p or ':=' in p or (',' in p and not p.startswith(('(', '[', '{', 'f(')))
               for p in parts):
            parts = ['(' + p + ')' if not p.startswith('*') else p for p in parts]
        return ', '.join(parts) + (',' if len(parts) == 1 else ''), 'Tuple'
    if kind == 'pattern':
        return '[' + ', '.join(parts) + ']', 'pattern'
    if kind == 'keyword':
        return ', '.join(parts), '_arglikes'
    if kind == 'alias_from':
        return ', '.join(parts), '_ImportFrom_names'
    if kind == 'alias_import':
        return ', '.join(parts), '_Import_names'
    if kind == 'withitem':
        return ', '.join(parts), '_withitems'
    if kind == 'arg':
        return ', '.join(parts), 'arguments'
    if kind == 'type_param':
        return ', '.join(parts), '_type_params'
    return ', '.join(parts), None


def make_slice_code(step, FST):
    if step.get('as_slice'):
        return make_code(step, FST), False   # the code is itself a sequence (List / Tuple ...) whose ELEMENTS are put (one=False)
    if 'multi' not in step:
        return make_code(step, FST), True  # one=True
    src, mode = join_multi(step)
    if step['form'] == 'src' or mode is None:
        return src, False
    f = FST(src, mode)
    return (f.a if step['form'] == 'ast' else f), False


def apply_step(root, step, FST):
    """Execute the step through the public API. Raises whatever pfst raises. Returns a short result tag."""
    node = resolve(root.a, step['path'])
    t = node.f
    parent = t.parent
    pf = t.pfield
    field, idx = pf.name, pf.idx
    op = step['op']
    opts = opts_from_json(step['opts'])
    in_list = idx is not None
    if not in_list and op in DELETE_OPS + INSERT_OPS + MOVE_OPS + ['put_slice_one']:
        op = {'delitem': 'remove', 'put_slice_none': 'put_none', 'view_remove': 'remove', 'put_slice_one': 'put'}.get(op, 'replace' if op in INSERT_OPS else 'cut')
    n = step.get('n', 1)
    if op == 'replace':
        t.replace(make_code(step, FST), **opts)
    elif op == 'put':
        parent.put(make_code(step, FST), idx, field=field, **opts)
    elif op == 'assign':
        with FST.options(**opts):
            if in_list:
                getattr(parent, field)[idx] = make_code(step, FST)
            else:
                setattr(parent, field, make_code(step, FST))
    elif op == 'put_slice_one':
        parent.put_slice(make_code(step, FST), idx, idx + 1, field, one=True, **opts)
    elif op == 'remove':
        t.remove(**opts)
    elif op == 'delitem':
        with FST.options(**opts):
            del getattr(parent, field)[idx]
    elif op == 'put_none':
        parent.put(None, idx, field=field, **opts)
    elif op == 'put_slice_none':
        parent.put_slice(None, idx, idx + n, field, **opts)
    elif op == 'view_remove':
        with FST.options(**opts):
            getattr(parent, field)[idx:idx + n].remove()
    elif op == 'insert':
        parent.insert(make_code(step, FST), idx, field, **opts)
    elif op == 'append':
        parent.append(make_code(step, FST), field, **opts)
    elif op == 'prepend':
        parent.prepend(make_code(step, FST), field, **opts)
    elif op == 'extend':
        code, one = make_slice_code(step, FST)
        if one:
            parent.append(code, field, **opts)
        else:
            parent.extend(code, field, **opts)
    elif op == 'prextend':
        code, one = make_slice_code(step, FST)
        if one:
            parent.prepend(code, field, **opts)
        else:
            parent.prextend(code, field, **opts)
    elif op == 'put_slice':
        code, one = make_slice_code(step, FST)
        parent.put_slice(code, idx, idx + n, field, one=one, **opts)
    elif op == 'setslice':
        code, one = make_slice_code(step, FST)
        with FST.options(**opts):
            if one:
                getattr(parent, field)[idx:idx + n].replace(code, one=True)
            else:
                getattr(parent, field)[idx:idx + n] = code
    elif op == 'view_insert':
        with FST.options(**opts):
            getattr(parent, field).insert(make_code(step, FST), idx)
    elif op == 'view_append':
        with FST.options(**opts):
            getattr(parent, field).append(make_code(step, FST))
    elif op == 'cut':
        return t.cut(**opts)
    elif op == 'get_cut':
        return parent.get(idx, field=field, cut=True, **opts)
    elif op == 'get_slice_cut':
        return parent.get_slice(idx, idx + n, field, cut=True, **opts)
    elif op == 'view_cut':
        with FST.options(**opts):
            return getattr(parent, field)[idx:idx + n].cut()
    elif op == 'put_line_comment':
        t.put_line_comment(step['code'])
    elif op == 'put_docstr':
        tt = t if isinstance(t.a, (ast.FunctionDef, ast.AsyncFunctionDef, ast.ClassDef)) else root
        tt.put_docstr(step['code'], **opts)
    elif op == 'par':
        t.par(True)
    elif op == 'unpar':
        t.unpar()
    elif op == 'unpar_redundant':
        # unpar() is documented as doing no parsability validation; it is judged only on parentheses that are redundant for CPython:
        # deleting them - keeping one space where the deletion would join two alphanumeric characters, the one lexical case pfst
        # documents handling ('if(b)else') - must leave the parsed structure unchanged. '(1).real' -> '1.real' is therefore not judged.
        pl = t.pars()
        if not getattr(pl, 'n', 0):
            raise StepNotApplicable('no grouping parentheses')
        ln, col, end_ln, end_col = t.loc
        src = root.src
        ls = src.split('\n')
        ot = [0]
        for l in ls:
            ot.append(ot[-1] + len(l) + 1)
        a0, a1, b0, b1 = ot[pl.ln] + pl.col, ot[ln] + col, ot[end_ln] + end_col, ot[pl.end_ln] + pl.end_col
        if '#' in src[a0:a1] or '#' in src[b0:b1]:
            raise StepNotApplicable('parentheses hold a comment')
        alnum = lambda ch: ch.isalnum() or ch == '_'
        j1 = ' ' if a0 > 0 and alnum(src[a0 - 1]) and alnum(src[a1]) else ''
        j2 = ' ' if b1 < len(src) and alnum(src[b0 - 1]) and alnum(src[b1]) else ''
        v = src[:a0] + j1 + src[a1:b0] + j2 + src[b1:]
        try:
            same = ast.dump(ast.parse(v)) == ast.dump(ast.parse(src))
        except SyntaxError:
            same = False
        if not same:
            raise StepNotApplicable('parentheses are not redundant per CPython')
        t.unpar()
    else:
        raise AssertionError('unknown op ' + op)
    return None


def effective_c01_scope(step, FST):
    """C01 applies only with normalization and parenthesization enabled and raw off (explicit kwargs -> thread defaults)."""
    o = dict(FST.get_options())
    o.update(opts_from_json(step['opts']))
    if o.get('raw') is not False:
        return False
    if o.get('pars') is False:
        return False
    ns = o.get('norm_self')
    if ns is None:
        ns = o.get('norm')
    return bool(ns)
