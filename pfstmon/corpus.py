"""Input programs (never expected outputs): REAL windows from the stdlib and pfst's own sources, LAYOUT mutators,
small hand-written GRAMMAR programs."""

import ast
import glob
import io
import os
import re
import sysconfig
import tokenize

from .base import REPO_SRC, S

_FILES = None


def real_files():
    global _FILES
    if _FILES is None:
        std = sysconfig.get_paths()['stdlib']
        fs = sorted(glob.glob(std + '/*.py'))
        for sub in ('json', 'email', 'asyncio', 'importlib', 'collections', 'concurrent/futures', 'logging', 'unittest'):
            fs += sorted(glob.glob(f'{std}/{sub}/*.py'))
        fs += sorted(glob.glob(std + '/test/test_[a-g]*.py'))[:120]
        fs += sorted(glob.glob(REPO_SRC + '/fst/*.py'))
        fs += sorted(glob.glob(os.path.dirname(REPO_SRC) + '/tests/test_*.py'))
        _FILES = fs
    return _FILES


_CACHE = {}


def load(fn):
    """(src, ast.Module) or None"""
    if fn not in _CACHE:
        try:
            src = open(fn, encoding='utf-8').read()
            if '\r' in src or '\f' in src:
                raise ValueError
            mod = ast.parse(src)
            _CACHE[fn] = (src, mod)
        except Exception:
            _CACHE[fn] = None
        if len(_CACHE) > 64:
            _CACHE.pop(next(iter(_CACHE)))
    return _CACHE[fn]


def window(rnd, min_len=20, max_len=3500, max_stmts=4, files=None):
    """Random window of 1..max_stmts consecutive top-level statements (with leading comments/decorators)."""
    files = files or real_files()
    for _ in range(200):
        fn = rnd.choice(files)
        r = load(fn)
        if not r or not r[1].body:
            continue
        src, mod = r
        i = rnd.randrange(len(mod.body))
        j = min(len(mod.body) - 1, i + rnd.randint(0, max_stmts - 1))
        lo = min([mod.body[i].lineno] + [d.lineno for d in getattr(mod.body[i], 'decorator_list', [])]) - 1
        L = src.split('\n')
        while lo > 0 and L[lo - 1].lstrip().startswith('#'):
            lo -= 1
        seg = '\n'.join(L[lo:mod.body[j].end_lineno])
        if min_len < len(seg) < max_len:
            try:
                ast.parse(seg)
            except SyntaxError:
                continue
            return fn, seg
    return None, 'x = 1\n'


# ----------------------------------------------------------------------------------------------------------------------
# LAYOUT mutators: accepted only if the structure is unchanged according to CPython's parser

def _accept(orig, new):
    try:
        return S(ast.parse(orig)) == S(ast.parse(new))
    except (SyntaxError, ValueError):
        return False


def _tokens(src):
    try:
        return list(tokenize.generate_tokens(io.StringIO(src).readline))
    except Exception:
        return None


def mut_comments(src, rnd, p=0.3):
    """Append '# c<N>' comments to logical/physical line ends where the tokenizer has a NEWLINE/NL."""
    tk = _tokens(src)
    if tk is None:
        return None
    lines = src.split('\n')
    spots = {}
    for t in tk:
        if t.type in (tokenize.NEWLINE, tokenize.NL) and t.start[0] - 1 < len(lines):
            ln = t.start[0] - 1
            if '#' not in lines[ln][t.start[1] - 1 if t.start[1] else 0:] and not lines[ln].rstrip().endswith('\\'):
                spots[ln] = t.start[1]
    k = 0
    for ln, col in spots.items():
        if rnd.random() < p and lines[ln][:col].strip():
            k += 1
            c = rnd.choice(['# c%d' % k, '# é%d' % k, '#: note %d' % k, '# C:\\dir%d\\' % k])
            lines[ln] = lines[ln][:col] + '  ' + c
    new = '\n'.join(lines)
    return new if k and _accept(src, new) else None


def mut_comment_lines(src, rnd, p=0.25):
    """Insert own-line comments before random statement lines (at the statement's indentation)."""
    try:
        mod = ast.parse(src)
    except SyntaxError:
        return None
    lines = src.split('\n')
    starts = sorted({n.lineno for n in ast.walk(mod) if isinstance(n, ast.stmt) and not getattr(n, 'decorator_list', None)}, reverse=True)
    k = 0
    for ln in starts:
        if rnd.random() < p:
            line = lines[ln - 1]
            ind = line[:len(line) - len(line.lstrip())]
            # only when the statement starts its line
            k += 1
            lines.insert(ln - 1, ind + rnd.choice(['# block %d' % k, '# block %d' % k, '# see C:\\tools%d\\' % k]))
    new = '\n'.join(lines)
    return new if k and _accept(src, new) else None


def mut_parens(src, rnd, p=0.2):
    """Wrap random expressions in redundant parentheses."""
    try:
        mod = ast.parse(src)
    except SyntaxError:
        return None
    try:
        src.encode('ascii')
    except UnicodeEncodeError:
        return None  # byte/char offsets differ; keep this mutator simple
    cands = []
    for n in ast.walk(mod):
        if isinstance(n, ast.expr) and not isinstance(n, (ast.Starred, ast.Slice, ast.JoinedStr, ast.FormattedValue)) \
                and n.lineno == n.end_lineno and rnd.random() < p:
            cands.append((n.lineno, n.col_offset, n.end_col_offset))
    if not cands:
        return None
    lines = src.split('\n')
    # apply non-overlapping-or-nested safely: process by line, right to left, inserting characters
    ins = []
    for ln, c0, c1 in cands:
        ins.append((ln, c1, ')'))
        ins.append((ln, c0, '('))
    ins.sort(key=lambda x: (x[0], x[1], x[2] == '('), reverse=True)
    for ln, c, ch in ins:
        lines[ln - 1] = lines[ln - 1][:c] + ch + lines[ln - 1][c:]
    new = '\n'.join(lines)
    if _accept(src, new):
        return new
    # fall back to a single wrap
    ln, c0, c1 = rnd.choice(cands)
    lines = src.split('\n')
    lines[ln - 1] = lines[ln - 1][:c0] + '(' + lines[ln - 1][c0:c1] + ')' + lines[ln - 1][c1:]
    new = '\n'.join(lines)
    return new if _accept(src, new) else None


_UNI = ['é', '蟒', 'к', 'ñ', 'ü']


def mut_unicode(src, rnd, p=0.5):
    """Rename identifiers consistently to non-ASCII (NFKC-stable) names."""
    tk = _tokens(src)
    if tk is None:
        return None
    import keyword
    names = sorted({t.string for t in tk if t.type == tokenize.NAME and not keyword.iskeyword(t.string)
                    and not keyword.issoftkeyword(t.string) and not t.string.startswith('__')})
    ren = {n: n + rnd.choice(_UNI) for n in names if rnd.random() < p}
    if not ren:
        return None
    out = []
    lines = src.split('\n')
    by_line = {}
    for t in tk:
        if t.type == tokenize.NAME and t.string in ren and t.start[0] == t.end[0]:
            by_line.setdefault(t.start[0], []).append(t)
    for ln, ts in by_line.items():
        line = lines[ln - 1]
        for t in sorted(ts, key=lambda t: -t.start[1]):
            line = line[:t.start[1]] + ren[t.string] + line[t.end[1]:]
        lines[ln - 1] = line
    new = '\n'.join(lines)
    try:
        a, b = ast.parse(src), ast.parse(new)
    except (SyntaxError, ValueError):
        return None
    # structure equal modulo renaming: compare dumps with names mapped
    da = S(a)
    db = S(b)
    for n, r in ren.items():
        pass
    if len(list(ast.walk(a))) != len(list(ast.walk(b))):
        return None
    return new


def mut_continuation(src, rnd, p=0.15):
    """Insert backslash-newline between tokens (outside brackets too)."""
    tk = _tokens(src)
    if tk is None:
        return None
    lines = src.split('\n')
    spots = []
    for a, b in zip(tk, tk[1:]):
        if a.end[0] == b.start[0] and a.type in (tokenize.NAME, tokenize.OP, tokenize.NUMBER) and \
                b.type in (tokenize.NAME, tokenize.OP, tokenize.NUMBER, tokenize.STRING) and rnd.random() < p:
            spots.append((a.end[0], a.end[1]))
    if not spots:
        return None
    done = 0
    for ln, col in sorted(set(spots), reverse=True)[:8]:
        line = lines[ln - 1]
        trial = lines[:ln - 1] + [line[:col] + ' \\', '        ' + line[col:].lstrip()] + lines[ln:]
        new = '\n'.join(trial)
        if _accept(src, new):
            lines = trial
            done += 1
    return '\n'.join(lines) if done else None


def mut_semicolons(src, rnd):
    """Join consecutive simple statements of one block with ';'."""
    try:
        mod = ast.parse(src)
    except SyntaxError:
        return None
    lines = src.split('\n')
    simple = (ast.Expr, ast.Assign, ast.AugAssign, ast.AnnAssign, ast.Return, ast.Pass, ast.Break, ast.Continue,
              ast.Delete, ast.Global, ast.Nonlocal, ast.Assert, ast.Raise, ast.Import, ast.ImportFrom)
    pairs = []
    for n in ast.walk(mod):
        for f in ('body', 'orelse', 'finalbody'):
            b = getattr(n, f, None)
            if isinstance(b, list):
                for x, y in zip(b, b[1:]):
                    if isinstance(x, simple) and isinstance(y, simple) and x.end_lineno + 1 == y.lineno and \
                            x.lineno == x.end_lineno and y.lineno == y.end_lineno and '#' not in lines[x.lineno - 1]:
                        pairs.append((x.lineno, y.lineno))
    rnd.shuffle(pairs)
    used = set()
    done = 0
    for lx, ly in pairs[:6]:
        if lx in used or ly in used:
            continue
        trial = list(lines)
        trial[lx - 1] = trial[lx - 1].rstrip() + '; ' + trial[ly - 1].lstrip()
        trial[ly - 1] = None
        new = '\n'.join(l for l in trial if l is not None)
        if _accept(src, new):
            # apply and stop (line numbers shift)
            return new
    return None


def mut_tabs(src, rnd):
    lines = src.split('\n')
    tk = _tokens(src)
    if tk is None:
        return None
    # only touch lines that begin a logical line (INDENT-relevant): approximate via leading 4-space groups outside strings
    inside = set()
    for t in tk:
        if t.type == tokenize.STRING and t.start[0] != t.end[0]:
            inside.update(range(t.start[0] + 1, t.end[0] + 1))
    out = []
    for i, l in enumerate(lines, 1):
        if i in inside:
            out.append(l)
            continue
        m = re.match(r'^( +)', l)
        if m and len(m.group(1)) % 4 == 0:
            out.append('\t' * (len(m.group(1)) // 4) + l[len(m.group(1)):])
        else:
            out.append(l)
    new = '\n'.join(out)
    return new if new != src and _accept(src, new) else None


MUTATORS = {
    'comments': mut_comments, 'comment_lines': mut_comment_lines, 'parens': mut_parens, 'unicode': mut_unicode,
    'continuation': mut_continuation, 'semicolons': mut_semicolons, 'tabs': mut_tabs,
}


def relayout(src, rnd, kinds=None, n=2):
    """Apply up to n random accepted LAYOUT mutators; returns (new_src, [names applied])."""
    applied = []
    names = list(kinds or MUTATORS)
    rnd.shuffle(names)
    for name in names:
        if len(applied) >= n:
            break
        try:
            new = MUTATORS[name](src, rnd)
        except Exception:
            new = None
        if new is not None and new != src:
            src = new
            applied.append(name)
    return src, applied


# ----------------------------------------------------------------------------------------------------------------------
# GRAMMAR: small programs exercising every node class

GRAMMAR_PROGRAMS = [
    'import a, b.c as d\nfrom . import e\nfrom x.y import (f as g, h)\nfrom z import *\n',
    '@dec1\n@dec2(a, b=1)\nasync def f(a, /, b: int = 1, *c, d, e=2, **g) -> int:\n    """doc"""\n    global G\n    await x\n    async with a as b, c: pass\n    async for i in j: pass\n    else: pass\n    return [i async for i in aiter() if i]\n',
    'class C(B, metaclass=M, **kw):\n    """cls doc"""\n    x: int = 1\n    y: str\n    def m(self): nonlocal_ = 1; return self\n',
    'def f[T: int, *Ts, **P](a: T, *args: *Ts, **kwargs: P.kwargs) -> T: pass\nclass K[T]: pass\ntype X[T] = list[T]\n',
    'try:\n    pass\nexcept A as e:\n    raise B from e\nexcept (C, D):\n    pass\nexcept:\n    pass\nelse:\n    pass\nfinally:\n    pass\n',
    'try:\n    pass\nexcept* A as e:\n    pass\nexcept* (B, C):\n    pass\n',
    'match v:\n    case 1 | 2: pass\n    case [a, *rest, b]: pass\n    case {"k": v, **kw}: pass\n    case C(x, y=z): pass\n    case (a, b) as c if c: pass\n    case None | True: pass\n    case _: pass\n    case a.b: pass\n    case -1 + 2j: pass\n',
    'for a, b in c:\n    if a: continue\n    elif b: break\n    else: pass\nelse:\n    pass\nwhile x:\n    x -= 1\nelse:\n    pass\n',
    'with a as b, c as (d, e), f: pass\nwith (a as b, c): pass\n',
    'x = a if b else c\ny = lambda a, b=1, *c, d, **e: (a, b)\nz = (yield)\nw = [*a, *b]\nv = {**a, "k": 1, **b}\nu = {1, 2, *c}\n',
    'a = f(x, *y, k=1, **z)\nb = g(i for i in j)\nc = h(*a, b, *c, d=1, *e, **f)\nd = a[1:2, ::3, ...]\ne = a.b.c[d](e)\n',
    'x = f"a{b!r:>{w}}c{d=}" f"{e:{f}.{g}}"\ny = "s" "t"\nyb = b"x" b"y".decode()\nz = 1_000 + 0x1F + 1e3 + 2j\n',
    'a = not b or c and d\ne = a < b <= c != d is not e not in f\ng = -a ** -b\nh = (a := 1)\ni = a @ b // c % d << e >> f & g ^ h | i\nj = ~a + +b\n',
    'a += 1; b -= 2; c *= 3\nd @= e\nf: int = 3\n(g): int\nh.i: int = 2\ndel a, b[0], c.d\nassert a, "m"\nraise\nglobal G1, G2\npass\n',
    'def gen():\n    x = yield 1\n    y = yield from other()\n    await_ = (await z) if 0 else None\n    return x, y\n',
    'res = [a for a in b if a if not a for c in d]\ns = {k: v for k, v in z.items()}\nt = {x for x in y}\ng = (i for i in range(3))\n',
    'if a:\n    pass\nelif b:\n    pass\nelse:\n    if c:\n        pass\n    else:\n        pass\n',
    'x = (1,\n     2,  # two\n     3)\ny = [\n    a,\n    b,\n]\nz = f(\n    a,\n    b=c,\n)\n',
    'a = b = c = d\n(a, b), c = *d, e = f\n[a, *b] = c\na.b, c[d] = 1, 2\n',
    'lambda: 0\nlambda *a: a\nlambda **k: k\nlambda a, /: a\nlambda *, a: a\n',
    'def f():\n    """doc\n    more\n    """\n    b"""MAGIC\n        v1\n        """\n    x = """s\n      t"""\n    if x:\n        r"""raw\n            \\d"""\n        return 1\n',
    'x = [\n    """multi\n    # not a comment""",\n    second,\n    third,  # c\n]\ny = f("""a\n# b""", k, *rest)\n',
    '# about the function\n@deco1\n# about deco2\n@deco2(arg)\ndef decorated(): pass\n\n# about the class\n@cdeco\nclass Decorated(Base): pass\n',
    'class K:\n    """doc"""\n    b"""not a\n    docstring"""\n    def m(self):\n        """m doc\n        line\n        """\n        return b"""x\n        y"""\n',
]


def _gen_arglike_programs(n=28, seed=7):
    """Calls / class headers mixing positionals, *stars, keywords and **unpacks in every order CPython accepts (deterministic)."""
    import ast as _ast
    import random as _random
    rnd = _random.Random(seed)
    out = []
    names = ['p', 's', 'k', 'v', 'd', 'é', '日本']
    tries = 0
    while len(out) < n and tries < 5000:
        tries += 1
        items = []
        for i in range(rnd.randint(4, 9)):
            r = rnd.random()
            nm = rnd.choice(names) + str(i)
            items.append(f'*{nm}' if r < .25 else f'{nm}={rnd.choice(names)}' if r < .62 else f'**{nm}' if r < .74 else nm)
        sep = rnd.choice([', ', ', ', ',\n      ', ' ,  '])
        src = rnd.choice(['r = f(%s)\n', 'class K(%s): pass\n', '@dec(%s)\n@other(a)(b)\n@third\ndef g(): pass\n', 'x = [f(%s), 1]\n']) % sep.join(items)
        try:
            _ast.parse(src)
        except SyntaxError:
            continue
        out.append(src)
    return out


GRAMMAR_PROGRAMS += _gen_arglike_programs()
GRAMMAR_PROGRAMS += [
    '@first(a)(b)\n@second(b)\n@third\ndef f(): pass\n@c1(x)\n@c2\nclass K: pass\n',
    'def f(a, b, /): pass\ng = lambda x, /: x\ndef h(a: int = 1, /) -> int: ...\n',
    'd = {a: b, **c}\ne = {**a, **b, **c}\nf = {a: b, **c, d: e}\ng = {**a, b: c}\ndef k(*, a, b=1): pass\n',
    'from . import x\nfrom .. import y as z\nfrom ...pkg import w\nr = [a async for a in b]\ns = [c for c in d]\nu = u"kind"\n',
    'try: pass\nexcept *E as e: pass\nexcept  * (A, B) as f: pass\nexcept \\\n * G as g: pass\ntry: pass\nexcept E as e: pass\nexcept (F):pass\n',
    'x = a if(b)else c\nfor i in(j):pass\ny = not(a)\nz = [k for k in(l)if(m)]\nw = (p)if(q)else(r)\nv = lambda:(s)\nassert(t),(u)\n',
]
