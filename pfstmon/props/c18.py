"""C18 - substitution rewrites exactly the matched nodes with the filled-in template."""

import ast
import copy

META = {
    'level': 'exploration',
    'rule': ('per window and per (pattern, template, settings) recipe: matches are computed with match() on an untouched second parse; a pure-AST reference transformer '
             'replaces each matched node (outermost first, or recursively when nested=True; first k when count=k; bottom-up order for on="leave") by the template AST with '
             'every __FST_<tag> / __FST_ slot filled by deep copies of the captured node(s) (single node, statement list, with-items, dict items, handlers); oracle: '
             'dump(ast.parse(result.src)) == dump(reference) (when the reference round-trips through unparse), C01 oracle on the result, subn counts == number of reference '
             'replacements, identity template leaves the structure unchanged, every line lying wholly outside all matched nodes\' line ranges is preserved in order. Recipes: '
             'whole-match wrap, MOR wrap (nested on/off), operand swap, If inversion with body/orelse captures, With body/items capture, Dict item capture, identity, count, '
             'on=leave, the repository golden sub inputs. A cell is (recipe, settings, number of matches class). Recipes also include a list fold with loop in {False,1,2,3,True} (reference counts substitutions per location: subn total) and an Assign -> \'with __FST_v as __FST_n\' rewrite; a reference that does not read back as itself is out of scope. Every window also runs one GENERATED recipe: an int-constant wrap selected through MAND(.., MNOT(MOR(type, constrained atom))), a Name wrap selected through a random MNOT/MOR/MAND/MTYPES combinator (C17 spec generator), or a rename of one stored name with ctx=True and a pure-AST pattern carrying Store() (matches located with match(ctx=True)).'),
    'budget': {'quick': 45, 'thorough': 900},
    'floors': {'quick': {'loop_substitutions_judged': 800, 'generated_prefilter_or_ctx_recipes': 2000, 'substitutions_judged': 2500, 'matches_replaced': 8000}, 'thorough': {'loop_substitutions_judged': 5000, 'substitutions_judged': 80000, 'matches_replaced': 250000}},
    'shares_c01_oracle': True,
    'assumptions': ['match() itself is established by C17; the reference uses it only to locate matches', 'loop is checked only through termination/identity (its fixed point is defined by pfst\'s own re-matching)'],
    'technique': 'runtime monitoring: reference-model comparison (ast.NodeTransformer-style pure AST rewrite) at the sub()/subn() boundary',
}


def L(name):
    return ast.Name(id=name, ctx=ast.Load())


TOTALS = []   # substitutions per location reported by loop-aware reference builders
CUR = {'spec': ['MNOT', 'Attribute'], 'ctxname': 'self'}   # per-window parameters of the generated recipes (stored in the case for replay)


def recipes(M):
    """(name, pattern factory, template source, reference builder(node, tags, R) -> new node or list, applicable(node))"""
    def wrap(n, tags, R):
        return ast.Call(func=L('log'), args=[R(n, top=False)], keywords=[])

    def swap(n, tags, R):
        return ast.Call(func=L('swap'), args=[R(n.right), R(n.left)], keywords=[])

    def inv_if(n, tags, R):
        return ast.If(test=ast.UnaryOp(op=ast.Not(), operand=R(n.test)), body=[R(s) for s in n.orelse], orelse=[R(s) for s in n.body])

    def with_log(n, tags, R):
        return type(n)(items=[R(i) for i in n.items], body=[ast.Expr(value=ast.Call(func=L('log'), args=[], keywords=[]))] + [R(s) for s in n.body])

    def ident(n, tags, R):
        return R(n, top=False)

    def ret(n, tags, R):
        return ast.Return(value=ast.Call(func=L('check'), args=[R(n.value)], keywords=[]))

    def attr(n, tags, R):
        return ast.Call(func=L('getattr'), args=[R(n.value), ast.Constant(value=n.attr)], keywords=[]) if False else ast.Subscript(value=R(n.value), slice=L('key'), ctx=ast.Load())

    def assign_to_with(n, tags, R):
        return ast.With(items=[ast.withitem(context_expr=R(n.value), optional_vars=R(n.targets[0]))], body=[ast.Pass()])

    def wrapk(n, tags, R):
        return ast.Call(func=L('K'), args=[R(n, top=False)], keywords=[])

    def rename(n, tags, R):
        return ast.Name(id='z9', ctx=n.ctx)

    def spec_pat():
        from .c17 import build_spec
        return M.MAND(M.MName(ctx=ast.Load), build_spec(M, CUR['spec']))

    def mk_fold(N):
        def fold(n, tags, R):
            elts = [R(e) for e in n.elts]
            subs = 0
            while len(elts) >= 2 and (subs < 1 if N is False else (N is True or N <= 0 or subs < N)):
                elts = [ast.BinOp(left=elts[0], op=ast.Add(), right=elts[1])] + elts[2:]
                subs += 1
            TOTALS.append(subs)
            return ast.List(elts=elts, ctx=ast.Load())
        return fold
    folds = [(f'fold-list-loop={N}', lambda: M.MList(elts=[M.M(a=...), M.M(b=...), M.MQSTAR(tail=...)]), '[__FST_a + __FST_b, __FST_tail]', mk_fold(N), {'loop': N}) for N in (False, 1, 2, 3, True)]
    return folds + [
        ('assign-to-with-as', lambda: M.MAssign(targets=[M.M(n=...)], value=M.M(v=...)), 'with __FST_v as __FST_n: pass', assign_to_with, None),
        ('wrap-name', lambda: M.MName(ctx=ast.Load), 'log(__FST_)', wrap, None),
        ('wrap-name-or-attr', lambda: M.MOR(M.MName(ctx=ast.Load), M.MAttribute(ctx=ast.Load)), 'log(__FST_)', wrap, None),
        ('swap-binop', lambda: M.MBinOp(left=M.M(l=...), right=M.M(r=...)), 'swap(__FST_r, __FST_l)', swap, None),
        ('invert-if', lambda: M.MIf(test=M.M(t=...), body=M.M(b=...), orelse=M.M(e=[..., M.MQSTAR])), 'if not __FST_t:\n    __FST_e\nelse:\n    __FST_b', inv_if, None),
        ('with-log', lambda: M.MWith(items=M.M(i=...), body=M.M(b=...)), 'with __FST_i:\n    log()\n    __FST_b', with_log, None),
        ('identity-expr', lambda: M.MCall, '__FST_', ident, None),
        ('identity-stmt', lambda: M.MAssign, '__FST_', ident, None),
        ('return-check', lambda: M.MReturn(value=M.M(v=ast.expr)), 'return check(__FST_v)', ret, None),
        # patterns whose search() pre-filter (node types to visit) is derived through MNOT/MOR/MAND/MTYPES: sub() must replace what match() accepts
        ('wrap-int-not-name-or-1', lambda: M.MAND(M.MConstant(value=int), M.MNOT(M.MOR(ast.Name, M.MConstant(1)))), 'K(__FST_)', wrapk, None),
        ('wrap-name-random-combinator', spec_pat, 'log(__FST_)', wrap, None),
        # ctx=True with a pure-AST pattern carrying an expr_context instance: only that context is substituted
        ('rename-stored-name-ctx', lambda: ast.Name(id=CUR['ctxname'], ctx=ast.Store()), 'z9', rename, {'ctx': True}),
        ('attr-to-subscript', lambda: M.MAttribute(value=M.M(v=...), ctx=ast.Load), '__FST_v[key]', attr, None),
    ]


def build_reference(tree, root2, pat, builder, nested, count, on, match_kw=None):
    """Pure-AST rewrite. Returns (new tree, number of replacements, list of matched top-level (lineno, end_lineno)) or None
    when a selected match sits inside a match pattern (documented: hardly any expression is valid there)."""
    # correspondence tree <-> root2.a by parallel walk (same structure)
    twin = {id(b): a for a, b in zip(ast.walk(tree), ast.walk(root2.a))}
    par = {}
    for n in ast.walk(root2.a):
        for c in ast.iter_child_nodes(n):
            par[id(c)] = n
    selected = set()      # ids of `tree` nodes to replace
    par_ranges = []
    order = []            # in pfst walk (syntactic) order
    chosen_b = []
    for f in root2.walk(True):
        b = f.a
        try:
            m = f.match(pat, **(match_kw or {}))
        except Exception:
            m = None
        if m is None:
            continue
        # inside an already chosen match?
        x = b
        inside = False
        while id(x) in par:
            x = par[id(x)]
            if any(x is c for c in chosen_b):
                inside = True
                break
        if inside and not nested:
            continue
        if count and len([1 for c in chosen_b]) >= count:
            break
        y = b
        while id(y) in par:
            y = par[id(y)]
            if isinstance(y, ast.pattern):
                return None
        chosen_b.append(b)
        selected.add(id(twin[id(b)]))
        try:
            pr = f.pars()   # the matched node's own grouping parentheses belong to it (C06 validates pars())
            par_ranges.append((pr.ln + 1, pr.end_ln + 1))
        except Exception:
            pass
    n_repl = [0]
    ranges = []

    def R(node, top=True, inside_match=False):
        if isinstance(node, list):
            return [R(x, True, inside_match) for x in node]
        if not isinstance(node, ast.AST):
            return node
        if top and id(node) in selected:
            n_repl[0] += 1
            if not inside_match and hasattr(node, 'lineno'):
                ranges.append((node.lineno, node.end_lineno))

            def RR(x, top=True):
                return R(x, top, True)
            return builder(node, None, RR)
        new = copy.copy(node)
        for f, v in ast.iter_fields(node):
            if isinstance(v, ast.AST):
                setattr(new, f, R(v, True, inside_match))
            elif isinstance(v, list):
                setattr(new, f, [R(x, True, inside_match) if isinstance(x, ast.AST) else x for x in v])
        return new
    new = R(tree)
    return new, n_repl[0], ranges + par_ranges


def run_window(ctx, FST, M, src, label, rnd, only=None):
    from ..base import insync, short, refparse
    base, _ = refparse(src)
    if base is None:
        return
    from .c11 import has_debug_fstring
    if has_debug_fstring(base):
        ctx.count('program_with_debug_fstring_skipped(AST edit of {x=} is ill-defined)')
        return
    RCP = recipes(M)
    rnd.shuffle(RCP)
    from .c17 import gen_spec
    stored = sorted({n.id for n in ast.walk(base) if isinstance(n, ast.Name) and isinstance(n.ctx, ast.Store)} & {n.id for n in ast.walk(base) if isinstance(n, ast.Name) and not isinstance(n.ctx, ast.Store)})
    CUR['ctxname'] = rnd.choice(stored) if stored else 'self'
    CUR['spec'] = gen_spec(rnd)
    if only:
        RCP = [r for r in RCP if r[0] == only['recipe']]
        CUR['ctxname'], CUR['spec'] = only.get('ctxname', CUR['ctxname']), only.get('spec', CUR['spec'])
    else:
        gen = [r for r in RCP if r[0] in ('wrap-int-not-name-or-1', 'wrap-name-random-combinator', 'rename-stored-name-ctx')]
        RCP = [r for r in RCP if r not in gen][:4] + [rnd.choice(gen)] + RCP   # one generated recipe in every window
    for name, mkpat, tmpl, builder, extra in RCP[:5]:
        if ctx.out_of_time():
            return
        extra = extra or {}
        del TOTALS[:]
        nested = rnd.random() < 0.4 and name.startswith('wrap-name')
        count = rnd.choice([0, 0, 0, 1, 2])
        if only:
            nested, count = only['nested'], only['count']
        on = 'enter'
        if nested and count:
            count = 0
        if name.startswith('identity') or extra:
            nested = False
        try:
            root = FST(src, 'exec')
            root2 = FST(src, 'exec')
        except Exception:
            return
        settings = f'nested={nested},count={count},on={on}'
        case = {'src': src, 'recipe': name, 'nested': nested, 'count': count, 'on': on, 'label': label, 'ctxname': CUR['ctxname'], 'spec': CUR['spec']}
        if name in ('wrap-int-not-name-or-1', 'wrap-name-random-combinator', 'rename-stored-name-ctx'):
            ctx.count('generated_prefilter_or_ctx_recipes')
        try:
            br = build_reference(copy.deepcopy(base), root2, mkpat(), builder, nested, count, on, {'ctx': True} if extra.get('ctx') else None)
            if br is None:
                ctx.count('match_inside_pattern(skipped)')
                continue
            ref, nref, ranges = br
            ast.fix_missing_locations(ref)
            want = ast.parse(ast.unparse(ref))
            from .c07 import Sn as _Sn
            if ast.dump(ast.parse(ast.unparse(want))) != ast.dump(want) or _Sn(want) != _Sn(ref):
                ctx.count('reference_not_valid_python(skipped)')   # e.g. a Starred as an operand: the unparsed reference re-parses to something else
                continue
        except RecursionError:
            continue
        except Exception as e:
            ctx.count('reference_failed:' + type(e).__name__)
            continue
        if nref == 0:
            ctx.count('no_match_in_window')
        try:
            out, uniq, total = root.subn(mkpat(), tmpl, nested, count=count, on=on, norm=True, **extra)
        except Exception as e:
            if nref == 0:
                continue
            ctx.violation(f'sub-raised:{type(e).__name__}:{name}', f'{name} ({settings}) on {short(src, 160)!r}: {type(e).__name__}: {short(str(e), 140)} (reference makes {nref} replacements)', case)
            continue
        ctx.count('substitutions_judged')
        ctx.count('matches_replaced', nref)
        ctx.evaluations += 1
        ctx.cell(name, settings, 'none' if nref == 0 else 'one' if nref == 1 else 'many')
        if out is not root:
            ctx.violation('sub-does-not-return-self', f'{name}: subn returned a different object', case)
        ok, detail = insync(root)
        if ok is False:
            ctx.violation(f'sub-result-desync:{detail}:{name}', f'{name} ({settings}): result source and tree out of sync ({detail}); src={short(root.src, 240)!r}', case)
            continue
        got, _ = refparse(root.src)
        from .c07 import Sn
        if got is None or Sn(got) != Sn(want):
            ctx.violation(f'sub-result-differs-from-reference:{name}', f'{name} ({settings}) on {short(src, 200)!r}: result {short(root.src, 240)!r} != reference {short(ast.unparse(want), 240)!r}', case)
            continue
        want_total = sum(TOTALS) if 'loop' in extra else nref
        if 'loop' in extra:
            ctx.count('loop_substitutions_judged', want_total)
        if uniq != nref or total != want_total:
            ctx.violation(f'subn-count-differs:{name}', f'{name} ({settings}): subn reports unique={uniq} total={total}, reference made {nref} replacements / {want_total} substitutions', case)
            continue
        if name.startswith('identity') and Sn(got) != Sn(base):
            ctx.violation('identity-template-changes-structure', f'{name}: structure changed', case)
        # text outside the substituted nodes
        lines = src.split('\n')
        touched = set()
        for a, b in ranges:
            touched.update(range(a, b + 1))
            k = a - 1   # the contiguous comment block directly above a replaced statement is selected by the default trivia option
            while k >= 1 and lines[k - 1].strip().startswith('#'):
                touched.add(k)
                k -= 1
        outside = [l for i, l in enumerate(lines, 1) if i not in touched and l.strip()]
        res_lines = root.src.split('\n')
        j = 0
        lost = None
        for l in outside:
            while j < len(res_lines) and res_lines[j] != l:
                j += 1
            if j >= len(res_lines):
                lost = l
                break
            j += 1
        ctx.count('outside_lines_checked', len(outside))
        if lost is not None and not name.startswith(('invert-if', 'with-log')):
            ctx.violation('sub-changed-text-outside-substituted-nodes', f'{name} ({settings}): line {lost!r} lying outside every matched node is not preserved verbatim/in order; result={short(root.src, 240)!r}', case)
    if len(ctx.samples) < 4:
        ctx.sample({'window': label, 'src': src[:120], 'recipes': [r[0] for r in RCP[:4]]})


def run(ctx):
    from fst import FST
    import fst.match as M
    from .. import corpus
    while not ctx.out_of_time():
        if ctx.rnd.random() < 0.2:
            label, src = 'GRAMMAR', ctx.rnd.choice(corpus.GRAMMAR_PROGRAMS)
        else:
            label, src = corpus.window(ctx.rnd, max_len=1500)
        if ctx.rnd.random() < 0.4:
            src, _ = corpus.relayout(src, ctx.rnd, kinds=['comments', 'comment_lines', 'parens', 'unicode', 'tabs', 'semicolons'], n=2)
        if 'f"' in src or "f'" in src:
            if ctx.rnd.random() < 0.7:
                continue
        run_window(ctx, FST, M, src, label, ctx.rnd)


def replay(ctx, case):
    from fst import FST
    import fst.match as M
    import random
    run_window(ctx, FST, M, case['src'], 'replay', random.Random(0), only=case)
