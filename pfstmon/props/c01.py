"""C01 - after any successful structured edit the source parses (CPython) to exactly the live tree."""

import ast

META = {
    'level': 'exploration',
    'rule': ('W1: random edit sequences (30 steps) on REAL windows / GRAMMAR programs (optionally LAYOUT-mutated), target drawn '
             'with inverse-frequency weighting over (node type, field), op drawn from 30 public entry points, code in 3 forms '
             '(source, pure AST, FST) from donor windows or a GRAMMAR table, options from a table with norm=True; W2: replay of '
             'the input halves of the repository golden put cases with norm=True. Oracle after every step that returns '
             'normally and is in scope (norm on, pars not False, raw off): ast.dump(include_attributes) of ast.parse(root.src) '
             '== dump of the live tree. A cell is (target type, field, op, code form, source-changed); only cells whose step '
             'changed the source count as non-trivial. W3 (deterministic, complete in both tiers): every element of 14 multi-line / continuation-line host containers x 19 entry points (single, slice, delete) x irregularly indented multi-line codes (as one element and as a slice) x the three code forms. unpar() is judged on the sub-domain where the parentheses are redundant for CPython (deleting them, keeping one space only between two alphanumeric characters, leaves the parsed structure unchanged).'),
    'budget': {'quick': 45, 'thorough': 900},
    'floors': {'quick': {'insync_checked': 4000, '#cells': 300}, 'thorough': {'insync_checked': 60000, '#cells': 1000}},
    'assumptions': ['CPython 3.12 ast.parse is the reference parser', 'end-of-file convention: text ending in backslash-newline is parsed with one extra newline',
                    'non-Module roots are judged through a parenthesized/own-line embedding; _slice container roots are counted, not judged'],
}


HOSTS3 = [   # multi-line containers whose elements sit on their own lines at various indentation widths / characters
    'x = [\n    p,\n    q,\n]\n', 'f(\n    p,\n    q,\n)\n', 'x = {\n        p: 1,\n        q: 2,\n}\n', 'class C(\n  p,\n  q,\n): pass\n', 'x = (\n\tp,\n\tq,\n)\n',
    'def f(\n        p,\n        q=1,\n): pass\n', 'with (\n    p as a,\n    q as b,\n): pass\n', 'from m import (\n    p,\n    q,\n)\n', 'match v:\n    case [\n        p,\n        q,\n    ]: pass\n',
    'if 1:\n    x = [\n        p,\n        q,\n    ]\n', 'x = {\n  p,\n  q,\n}\ndel (\n      p,\n      q,\n)\n',
    # unparenthesized sequences spread over continuation lines, multi-byte text before the element ends
    'x = é, b, \\\n c\nfor ü, v, \\\n w in z: pass\n', 'del é, ü, \\\n  ñ\nreturn_ = "日本", é, \\\n    ü\n', 'é = ü, \\\n ñ = "ä", \\\n  ö\nassert é, \\\n "ü"\n',
]
CODES3 = ['[\n        a,\n        (b,\n  c),\n]', '(a,\n            b,\n c)', 'f(\n            x,\n  y)', '[\n\ta,\n\t\t(b,\n c)]', 'a, (b,\n  c), d', '{\n      k: v,\n   **w,\n          j: u}',
          '[\n        é,\n        ("日本",\n  ü),\n]', 'g(a)(\n        b)(\n  c)']
OPS3 = ['replace', 'put', 'put_slice', 'put_slice_one', 'setslice', 'insert', 'append', 'extend', 'prepend', 'prextend', 'view_insert', 'view_append']
DEL3 = ['remove', 'delitem', 'put_none', 'put_slice_none', 'view_remove', 'cut', 'get_slice_cut']


def run_table3(ctx, FST):
    """Deterministic part (complete in both tiers): every element of every HOSTS3 container x slice/single entry points x irregularly indented
    multi-line codes x the three code forms; the oracle is the same as for W1."""
    import random
    from .. import edits
    i = 0
    for hi, src in enumerate(HOSTS3):
        try:
            n = len(edits.candidates(FST(src, 'exec').a))
        except Exception:
            continue
        for ci in range(n):
            for op in OPS3 + DEL3:
                for code in (['zz'] if op in DEL3 else []) or CODES3 + ([c + '#slice' for c in CODES3 if c[0] in '[(' or ',' in c] if op in ('put_slice', 'setslice', 'extend', 'prextend') else []):
                    as_slice = code.endswith('#slice')
                    code = code[:-6] if as_slice else code
                    for form in ('src', 'ast', 'fst'):
                        i += 1
                        if not ctx.mine(i):
                            continue
                        if ctx.out_of_time():
                            return
                        rnd = random.Random(i)
                        root = FST(src, 'exec')
                        step = edits.gen_step(rnd, root, {}, None, cand=ci, op=op, code=code, form=form)
                        if step is None or step['kind'] not in ('expr', 'expr1', 'dictval', 'starred', 'withitem', 'alias_from', 'pattern', 'arg', 'keyword', 'target'):
                            continue
                        step['opts'] = {'norm': True}
                        if as_slice:
                            step['as_slice'] = True
                        before = root.src
                        try:
                            edits.apply_step(root, step, FST)
                        except Exception:
                            ctx.count('table3_step_raised')
                            continue
                        ctx.count('table3_steps')
                        ctx.evaluations += 1
                        if root.src != before:
                            ctx.cell(step['ttype'], step['field'], step['op'], step['form'])
                        check_after(ctx, FST, root, step, before)


def run(ctx):
    from fst import FST
    from .. import corpus, edits
    from . import c01
    seq = 0
    weights = {}
    run_table3(ctx, FST)
    while not ctx.out_of_time():
        seq += 1
        mode = ctx.rnd.random()
        if mode < 0.12:
            run_golden(ctx, FST, 40)
            continue
        run_sequence(ctx, FST, ctx.rnd, weights, grammar=mode < 0.3)


def pick_program(ctx, rnd, grammar, max_len=3000):
    from .. import corpus
    if grammar:
        src = rnd.choice(corpus.GRAMMAR_PROGRAMS)
        fn = 'GRAMMAR'
    else:
        fn, src = corpus.window(rnd, max_len=max_len)
    applied = []
    if rnd.random() < 0.3:
        s2 = corpus.mut_unicode(src, rnd)
        if s2:
            src, applied = s2, ['unicode']
    if rnd.random() < 0.5:
        src, a2 = corpus.relayout(src, rnd)
        applied += a2
    return fn, src, applied


def before_src_of(step):
    return step.get('before_src') or ''


def re_search(pat, s):
    import re
    return re.search(pat, s, re.M)


def edits_resolve(a, path):
    from ..edits import resolve
    return resolve(a, path)


def classify_c01(step, detail, root):
    """Mechanism key for a C01 failure (from the step's shape, never from seeds)."""
    code = step.get('code') or ''
    slice_ops = ('insert', 'append', 'prepend', 'extend', 'prextend', 'put_slice', 'put_slice_one', 'setslice',
                 'view_insert', 'view_append')
    codes = [code] + list(step.get('multi') or []) if isinstance(code, str) else []
    def is_a(c, cls):
        try:
            return isinstance(ast.parse('(\n' + c + '\n)').body[0].value, cls)
        except SyntaxError:
            return False
    if (step['ptype'] in ('With', 'AsyncWith') and step['field'] == 'items') or step.get('gptype') in ('With', 'AsyncWith') or 'With' in (step.get('anc') or ()) or 'AsyncWith' in (step.get('anc') or ()):
        try:
            ref = ast.parse(root.src)
            live_items = [len(n.items) for n in ast.walk(root.a) if isinstance(n, (ast.With, ast.AsyncWith))]
            ref_items = [len(n.items) for n in ast.walk(ref) if isinstance(n, (ast.With, ast.AsyncWith))]
            sole_tuple = any(isinstance(n, (ast.With, ast.AsyncWith)) and len(n.items) == 1 and isinstance(n.items[0].context_expr, ast.Tuple) and n.items[0].optional_vars is None for n in ast.walk(root.a))
            if live_items != ref_items or sole_tuple:
                return 'with-sole-parenthesized-tuple-item-reparsed-as-items'
        except SyntaxError:
            pass
    if step['kind'] == 'target' and isinstance(code, str):
        try:
            ast.parse('(\n' + code + '\n)')
            try:
                ast.parse('[\n' + code + '\n] = 0')
            except SyntaxError:
                return 'non-target-expression-accepted-into-store-slot'
        except SyntaxError:
            pass
    if step['ptype'] == 'BoolOp' and step['op'] in slice_ops and any(is_a(c, ast.Lambda) for c in codes):
        return 'lambda-into-boolop-values-slice-path-unparenthesized'
    if step['ptype'] in ('Call', 'ClassDef') and step['field'] in ('args', 'bases') and step['op'] in slice_ops + ('put', 'replace', 'assign'):
        try:
            par = edits_resolve(root.a, step['path'][:-1])
            kws = [(k.lineno, k.col_offset) for k in par.keywords if k.arg is not None]
            pos = [(a.lineno, a.col_offset) for a in getattr(par, step['field']) if not isinstance(a, ast.Starred)]
            if kws and pos and max(pos) > min(kws):
                return 'positional-after-keyword-accepted'
        except Exception:
            pass
    if ('Delete' in (step.get('anc') or ()) or step['ptype'] == 'Delete') and any('*' in c for c in codes):
        return 'starred-accepted-into:Delete.targets'
    if any(c.startswith('*') and not c.startswith('**') for c in codes) and step['kind'] not in ('pattern', 'type_param', 'arg'):
        return f'starred-accepted-into:{step["ptype"]}.{step["field"]}'
    if step['kind'] == 'stmt' and re_search(r';[ \t]*\\\n', before_src_of(step)) and step['op'] in ('remove', 'delitem', 'put_none', 'put_slice_none', 'view_remove', 'cut', 'get_cut', 'get_slice_cut', 'view_cut'):
        return 'one-line-block-statement-cut-with-continuation-after-semicolon-eats-header'
    if step['kind'] == 'stmt' and re_search(r'\\\n[ \t]*;', before_src_of(step)):
        return 'statement-cut-before-semicolon-on-continuation-line'
    if step.get('before_dangling_continuation') and step['kind'] == 'stmt':
        return 'statement-ending-in-dangling-line-continuation'
    if step['field'] == 'orelse' and step['ttype'] == 'If':
        import re
        inds = re.findall(r'^[ \t]+(?=\S)', root.src, re.M)
        widths = sorted({0} | {len(i) for i in inds})
        deltas = {b - a for a, b in zip(widths, widths[1:])}
        # the program does not use ONE indentation unit equal to the tree-wide root.indent (mixed characters, or blocks indented by different widths)
        if len(set(''.join(inds))) > 1 or len(deltas) > 1 or (deltas and deltas != {len(getattr(root, 'indent', '    ') or '    ')}):
            return 'elif-expansion-uses-tree-indent-not-block-indent'
    if step['field'] == 'decorator_list' and step['form'] == 'src' and any(c.rstrip(' \t').endswith('\\') for c in codes):
        return 'decorator-source-ending-in-line-continuation-joined-with-def'
    try:
        ast.parse(root.src)
    except SyntaxError as e:
        if 'illegal target for annotation' in str(e) and re_search(r'^\s*\(+[\s\\]*\w+[\s\\]*\)+[\s\\]*[.\[]', root.src):
            return 'annassign-target-base-left-as-parenthesized-name'
    except Exception:
        pass
    if step['ptype'] == 'Try' and step['field'] == 'handlers':
        try:
            par = edits_resolve(root.a, step['path'][:-1])
            if not par.handlers and par.orelse:
                return 'try-handlers-emptied-while-orelse-present'
        except Exception:
            pass
    if step['kind'] == 'arg' and ':' in code and (step.get('gptype') == 'Lambda' or step['ptype'] == 'Lambda'):
        return 'annotated-arg-into-lambda-arguments'
    if step['form'] == 'fst' and isinstance(code, str) and code.lstrip('(').startswith('yield') and \
            step['op'] in ('extend', 'prextend', 'put_slice', 'setslice') and step['ptype'] in ('Call', 'ClassDef'):
        return 'yield-fst-coerced-to-arglike-sequence-unparenthesized'   # the one-element entry points (insert/append/prepend/put_slice(one=True)/view insert) were repaired
    return f'desync:{detail}:{step["op"]}:{step["kind"]}'


def dangling_before_target(step, before_src):
    """True when the physical line(s) directly above the edited statement position (skipping blank, comment-only and backslash-only
    lines) end in a backslash: the previous statement's text ends in a line continuation that runs into the edited position."""
    import re
    try:
        tree = ast.parse(before_src if not before_src.endswith('\\\n') else before_src + '\n')
        path = step['path']
        try:
            if step.get('op') in ('append', 'extend', 'view_append'):   # the edit position is the END of the parent's list
                raise LookupError
            if step.get('op') in ('prepend', 'prextend'):
                path = path[:-1] + [[path[-1][0], 0]]
            node = edits_resolve(tree, path)
            line = min([node.lineno] + [d.lineno for d in getattr(node, 'decorator_list', [])])
        except Exception:
            par = edits_resolve(tree, path[:-1])
            lst = getattr(par, path[-1][0])
            line = (lst[-1].end_lineno + 1) if lst else par.lineno + 1
        lines = before_src.split('\n')
        k = line - 2
        while k >= 0 and (not lines[k].strip() or lines[k].strip().startswith('#') or lines[k].strip() == '\\'):
            if lines[k].strip() == '\\':
                return True
            k -= 1
        if k >= 0 and lines[k].rstrip().endswith('\\') and '#' not in lines[k]:
            return True
        # the statement itself may be the one that ends in the continuation (its last line)
        try:
            endl = edits_resolve(tree, path).end_lineno
            return lines[endl - 1].rstrip().endswith('\\') and '#' not in lines[endl - 1]
        except Exception:
            return False
    except Exception:
        return bool(re.search(r'\\\n([ \t]*\\\n)*[ \t]*(#[^\n]*)?(\n|$)', before_src))


def check_after(ctx, FST, root, step, before_src, prop='C01', classify=classify_c01):
    """Shared C01 oracle call (also used as sub-oracle by other properties). Returns True if in sync/unsupported."""
    from ..base import insync, first_diff, D, ref_for_root, short
    ok, detail = insync(root)
    if ok is None:
        ctx.count('root_kind_not_judged')
        return True
    ctx.count('insync_checked')
    if detail != 'module':
        ctx.count('insync_checked_nonmodule')
    if ok:
        return True
    ref, _ = ref_for_root(root)
    diff = first_diff(D(ref), D(root.a)) if ref is not None else {}
    import re
    ws = set(''.join(re.findall(r'^[ \t]+(?=\S)', before_src, re.M)))
    step = dict(step, before_src=before_src, before_mixed_indent=len(ws) > 1,
                before_dangling_continuation=dangling_before_target(step, before_src) if step.get('kind') == 'stmt' else bool(re.search(r'\\\n([ \t]*\\\n)*[ \t]*(#[^\n]*)?(\n|$)', before_src)))   # a continuation that runs into an empty or comment-only line
    key = classify(step, detail, root)
    ctx.violation(key, f'after {step["op"]} on {step["ptype"]}.{step["field"]} ({step["ttype"]}) form={step["form"]} '
                  f'code={short(step.get("code"), 80)!r} opts={step["opts"]}: {detail}; src={short(root.src, 300)!r} diff={diff}',
                  {'workload': 'seq', 'src': before_src, 'steps': [{k: v for k, v in step.items() if k != 'before_src'}]}, prop=prop)
    return False


def run_sequence(ctx, FST, rnd, weights, grammar=False, nsteps=30):
    from .. import corpus, edits
    from ..base import insync, short
    import fst as fstmod
    fn, src, applied = pick_program(ctx, rnd, grammar)
    try:
        root = FST(src, 'exec')
    except Exception:
        ctx.count('window_rejected_by_pfst')
        return
    dfn, dsrc = corpus.window(rnd, max_len=2500)
    try:
        donors = edits.donor_codes(FST(dsrc, 'exec'), None, rnd)
    except Exception:
        donors = {}
    ctx.count('sequences')
    for a in applied:
        ctx.count('layout:' + a)
    hist = []
    for i in range(nsteps):
        if ctx.out_of_time():
            break
        step = edits.gen_step(rnd, root, donors, weights, with_par='redundant')
        if step is None:
            break
        before = root.src
        in_scope = edits.effective_c01_scope(step, FST)
        try:
            edits.apply_step(root, step, FST)
        except Exception as e:
            ctx.count('step_raised')
            if root.src != before:
                ctx.count('raised_and_source_changed(C12 feed)')
                break
            fstmod.fst_core._MODIFYING.pop(root, None) if hasattr(fstmod.fst_core, '_MODIFYING') and isinstance(getattr(fstmod.fst_core, '_MODIFYING'), dict) else None
            continue
        ctx.evaluations += 1
        changed = root.src != before
        if not in_scope:
            ctx.count('out_of_scope_options')
            ok, _ = insync(root)
            if ok is False:
                break  # legitimately unparsable (norm/pars disabled): restart
            continue
        ctx.count('op:' + step['op'])
        ctx.count('form:' + step['form'])
        if changed:
            ctx.cell(step['ttype'], step['field'], step['op'], step['form'])
        if len(hist) < 3:
            hist.append({k: step[k] for k in ('op', 'ptype', 'field', 'form', 'code', 'opts')})
        if not check_after(ctx, FST, root, step, before):
            break
    if hist:
        ctx.sample({'file': fn, 'layout': applied, 'src': short(src, 200), 'first_steps': hist, 'final_src': short(root.src, 200)})


_GOLD = None


def golden_cases():
    """Input halves of the repository's golden put / put_slice cases (outputs ignored)."""
    global _GOLD
    if _GOLD is None:
        import os, sys
        from ..base import REPO_SRC
        tests = os.path.join(os.path.dirname(REPO_SRC), 'tests')
        sys.path.insert(0, tests)
        out = []
        try:
            from support import PutCases, PutSliceCases, _clean_options, _check_version
            from fst import FST
            for cls, fnm in [(PutCases, 'data_put_one.py'), (PutSliceCases, 'data_put_slice.py')]:
                path = os.path.join(tests, 'data', fnm)
                cases = cls(path, FST.put) if cls is PutCases else cls(path)
                for key, lst in cases.items():
                    for ci, case in enumerate(lst):
                        _, _, _, attr, start, stop, field, options, code, rest = case
                        if not _check_version(options):
                            continue
                        opts = dict(_clean_options(options))
                        rest0 = rest[0]
                        put = None if rest0 is None or rest0 == '**DEL**' else rest0 if isinstance(rest0, str) else \
                            None if rest0[1] == '**DEL**' else rest0[1]
                        out.append({'which': 'put' if cls is PutCases else 'put_slice', 'key': key, 'ci': ci, 'attr': attr,
                                    'start': start, 'stop': stop, 'field': field, 'opts': opts, 'code': code, 'put': put,
                                    'mode': rest0[0] if isinstance(rest0, tuple) else None})
        except Exception as e:
            out = []
        _GOLD = out
    return _GOLD


def golden_make(case, FST):
    import sys
    from support import _make_fst
    return _make_fst(case['code'], case['attr'])


def run_golden(ctx, FST, n):
    from ..base import short
    import ast
    cases = golden_cases()
    if not cases:
        ctx.count('golden_unavailable')
        return
    for _ in range(n):
        case = ctx.rnd.choice(cases)
        opts = dict(case['opts'])
        if opts.get('raw') or opts.get('pars') is False or 'to' in opts:
            ctx.count('golden_skipped_options')
            continue
        opts['norm'] = True
        opts.pop('norm_self', None)
        opts.pop('norm_get', None)
        form = ctx.rnd.choice(['src', 'fst', 'ast'])
        try:
            f = golden_make(case, FST)
        except Exception:
            ctx.count('golden_make_failed')
            continue
        root = f.root
        from ..base import insync
        pre, _ = insync(root)
        if pre is not True:
            ctx.count('golden_pre_not_judgeable')
            continue
        put = case['put']
        code = put
        if put is not None and form != 'src':
            try:
                mode = case['mode'] or 'all'
                cf = FST(put, mode)
                code = cf if form == 'fst' else cf.a
            except Exception:
                code = put
                form = 'src'
        before = root.src
        step = {'op': 'golden_' + case['which'], 'ptype': type(f.a).__name__, 'field': str(case['field']), 'ttype': '?',
                'form': form, 'code': put, 'opts': {k: (v if isinstance(v, (str, int, bool, type(None), tuple, list)) else repr(v)) for k, v in opts.items()},
                'kind': 'golden', 'golden': [case['which'], case['key'], case['ci']]}
        try:
            (FST.put if case['which'] == 'put' else FST.put_slice)(f, code, case['start'], case['stop'], case['field'], **opts)
        except Exception:
            ctx.count('golden_raised')
            continue
        ctx.evaluations += 1
        ctx.count('golden_success')
        if root.src != before:
            ctx.cell('golden', case['which'], case['key'], form)
        check_after(ctx, FST, root, step, before)


def replay(ctx, case):
    from fst import FST
    from .. import edits
    if case.get('workload') == 'seq':
        root = FST(case['src'], 'exec')
        for step in case['steps']:
            before = root.src
            try:
                edits.apply_step(root, step, FST)
            except Exception as e:
                print('step raised', repr(e))
                continue
            check_after(ctx, FST, root, step, before)
            print('after step:', repr(root.src[:300]))
