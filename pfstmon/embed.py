"""Reference parsing of fragments: each pfst parse mode gets a *layout-neutral* embedding into a construct CPython can
parse (fragment on its own lines inside the wrapper's brackets wherever the grammar has brackets), an extractor for the
sub-tree, and the constant position shift. CPython's parser is the only judge.

ref(mode, text) -> (status, tree_or_list)
    status: 'ok' (tree(s) with positions relative to the fragment), 'invalid' (embedding does not parse / wrong shape),
            'unsupported' (no embedding for this mode / fragment not embeddable e.g. multi-line string under indentation)
"""

import ast
import io
import tokenize

from .base import shift_positions


def _p(src):
    try:
        return ast.parse(src)
    except (SyntaxError, ValueError, RecursionError, MemoryError):
        return None


def _shift_all(nodes, dline, dcol_all=0):
    for root in nodes:
        for n in ast.walk(root):
            if hasattr(n, 'lineno') and n.lineno is not None:
                n.lineno += dline
                n.end_lineno += dline
                n.col_offset += dcol_all
                n.end_col_offset += dcol_all
    return nodes


def _has_multiline_token(text):
    try:
        for t in tokenize.generate_tokens(io.StringIO(text).readline):
            if t.type in (tokenize.STRING, tokenize.FSTRING_MIDDLE, tokenize.FSTRING_START) and t.start[0] != t.end[0]:
                return True
            if t.type == tokenize.FSTRING_MIDDLE and '\n' in t.string:
                return True
    except Exception:
        return True
    return '\\\n' in text  # backslash continuations would also be re-indented


def _bracket(prefix, text, suffix):
    """fragment on its own lines inside brackets; lines of the fragment keep their columns; line shift = -(#prefix lines)"""
    return prefix + '\n' + text + '\n' + suffix


def _indent_block(text):
    if _has_multiline_token(text):
        return None
    return '\n'.join((' ' + l) if l.strip() else l for l in text.split('\n'))


def _only_trivia(text):
    try:
        return all(t.type in (tokenize.NL, tokenize.NEWLINE, tokenize.COMMENT, tokenize.ENDMARKER, tokenize.INDENT, tokenize.DEDENT)
                   for t in tokenize.generate_tokens(io.StringIO(text).readline))
    except Exception:
        return False


def _last_code_token(text):
    try:
        last = None
        for t in tokenize.generate_tokens(io.StringIO(text).readline):
            if t.type not in (tokenize.NL, tokenize.NEWLINE, tokenize.COMMENT, tokenize.ENDMARKER, tokenize.INDENT, tokenize.DEDENT):
                last = t.string
        return last
    except Exception:
        return None


def ref(mode, text):
    f = _REF.get(mode)
    if f is None:
        return 'unsupported', None
    if mode in LIST_MODES and _only_trivia(text):
        return 'ok', []   # "zero or more"
    if _brackets_unbalanced(text):
        return 'invalid', None   # text that closes / opens a bracket of its own can only be valid by merging with an embedding: never a fragment of any kind
    try:
        return f(text)
    except RecursionError:
        return 'unsupported', None


def _brackets_unbalanced(text):
    """True when the text's own bracket tokens do not nest properly (decided by CPython's tokenizer, so brackets inside strings and comments do not count)."""
    import io
    import tokenize
    depth = 0
    try:
        for t in tokenize.generate_tokens(io.StringIO(text).readline):
            if t.type == tokenize.OP:
                if t.string in '([{':
                    depth += 1
                elif t.string in ')]}':
                    depth -= 1
                    if depth < 0:
                        return True
    except IndentationError:
        return depth != 0   # continuation lines of a fragment cut out of brackets may be indented arbitrarily: says nothing about brackets
    except (tokenize.TokenError, SyntaxError) as e:
        msg = str(e)
        return depth != 0 or 'unmatched' in msg or ('does not match' in msg and 'parenthesis' in msg) or 'was never closed' in msg
    return depth != 0


def _one(nodes):
    return ('ok', nodes[0]) if len(nodes) == 1 else ('invalid', None)


class Unsupported(Exception):
    pass


def _wrap(prefix, suffix, extract, text, nprefix_lines=1):
    m = _p(_bracket(prefix, text, suffix))
    if m is None:
        return 'invalid', None
    try:
        nodes = extract(m)
    except Unsupported:
        return 'unsupported', None
    except (AttributeError, IndexError, TypeError, AssertionError):
        return 'invalid', None
    if nodes is None:
        return 'invalid', None
    _shift_all(nodes, -nprefix_lines)
    return 'ok', nodes


# --- expressions ------------------------------------------------------------------------------------------------------

def _ref_expr(text):
    st, nodes = _wrap('(', ')', lambda m: [m.body[0].value] if len(m.body) == 1 and isinstance(m.body[0], ast.Expr) else None, text)
    if st != 'ok':
        # 'expr' documents a lone `*st` as valid
        st2, nodes2 = _wrap('[', ']', lambda m: m.body[0].value.elts if len(m.body) == 1 and isinstance(m.body[0].value, ast.List) else None, text)
        if st2 == 'ok' and len(nodes2) == 1 and isinstance(nodes2[0], ast.Starred) and not _last_code_token(text) == ',':
            # only a plain starred (`*not a` is not valid here): the operand must be parseable as an or-expr, which the list embedding guarantees
            return 'ok', nodes2[0]
        return 'invalid', None
    e = nodes[0]
    if isinstance(e, ast.Tuple) and e.lineno == 0:
        # the wrapper's parentheses became the tuple's own: it is a bare tuple in the fragment. Take extent from the
        # subscript embedding where Python keeps bare tuples undelimited.
        st2, n2 = _wrap('_[', ']', lambda m: [m.body[0].value.slice], text)
        if st2 != 'ok' or not isinstance(n2[0], ast.Tuple) or ast.dump(n2[0]) != ast.dump(e):
            return 'unsupported', None
        return 'ok', n2[0]
    if isinstance(e, ast.GeneratorExp) and e.lineno == 0:
        return 'invalid', None  # bare genexp used the wrapper's parentheses
    if e.lineno == 0:
        return 'unsupported', None
    return 'ok', e


def _ref_expr_slice(text):
    st, nodes = _wrap('_[', ']', lambda m: [m.body[0].value.slice], text)
    if st != 'ok':
        return _ref_expr(text)  # documented: same as 'expr' except for slices / starred (e.g. an unparenthesized yield)
    return st, nodes[0]


def _ref_expr_arglike(text):
    def ex(m):
        c = m.body[0].value
        if not isinstance(c, ast.Call) or c.keywords or len(c.args) != 1:
            return None
        return c.args
    st, nodes = _wrap('f(', ')', ex, text)
    if st != 'ok' or _last_code_token(text) == ',':
        return _ref_expr(text)  # documented: same as 'expr' except a:b / *not v; tuples, yield etc. as in 'expr'
    e = nodes[0]
    if isinstance(e, ast.GeneratorExp) and e.lineno == 0:
        return 'unsupported', None
    return 'ok', e


def _ref_arglikes(text):
    def ex(m):
        c = m.body[0].value
        if not isinstance(c, ast.Call):
            return None
        if len(c.args) == 1 and isinstance(c.args[0], ast.GeneratorExp) and c.args[0].lineno == 1:
            raise Unsupported
        return sorted(c.args + c.keywords, key=lambda n: (n.lineno, n.col_offset))
    return _wrap('f(', ')', ex, text)


def _ref_arglike(text):
    st, nodes = _ref_arglikes(text)
    if st != 'ok':
        return st, None
    if len(nodes) != 1:
        return 'invalid', None
    return 'ok', nodes[0]   # a trailing comma is tolerated by '_arglike' on purpose (the repository's parse tests expect it)


def _ref_keyword(text):
    st, n = _ref_arglike(text)
    if st != 'ok':
        return st, None
    if _last_code_token(text) == ',':
        return 'invalid-trailing-comma', None
    return ('ok', n) if isinstance(n, ast.keyword) else ('invalid', None)


# --- statements -------------------------------------------------------------------------------------------------------

def _ref_stmts(text):
    from .base import refparse
    m, _ = refparse(text)
    return ('ok', m) if m is not None else ('invalid', None)


def _ref_stmt(text):
    st, m = _ref_stmts(text)
    if st != 'ok':
        return st, None
    return ('ok', m.body[0]) if len(m.body) == 1 else ('invalid', None)


def _ref_handlers(text):
    m = _p('try: pass\n' + text)
    if m is None or len(m.body) != 1 or not isinstance(m.body[0], (ast.Try, ast.TryStar)) or m.body[0].orelse or m.body[0].finalbody:
        return 'invalid', None
    hs = m.body[0].handlers
    _shift_all(hs, -1)
    return 'ok', hs


def _ref_handler(text):
    st, hs = _ref_handlers(text)
    if st != 'ok':
        return st, None
    return ('ok', hs[0]) if len(hs) == 1 else ('invalid', None)


def _ref_cases(text):
    ind = _indent_block(text)
    if ind is None:
        return 'unsupported', None
    m = _p('match _:\n' + ind)
    if m is None or len(m.body) != 1 or not isinstance(m.body[0], ast.Match):
        return 'invalid', None
    cs = m.body[0].cases
    _shift_all(cs, -1, -1)
    return 'ok', cs


def _ref_case(text):
    st, cs = _ref_cases(text)
    if st != 'ok':
        return st, None
    return ('ok', cs[0]) if len(cs) == 1 else ('invalid', None)


# --- others -----------------------------------------------------------------------------------------------------------

def _ref_pattern(text):
    def ex(m):
        c = m.body[0].cases[0]
        if c.guard is not None or len(m.body) != 1 or len(m.body[0].cases) != 1 or len(c.body) != 1 or not isinstance(c.body[0], ast.Pass):
            raise AssertionError('merged')   # the text supplied a guard / case body of its own: not a pattern
        return [c.pattern]
    st, nodes = _wrap('match _:\n case (', ' ): pass', ex, text, 2)
    if st != 'ok':
        # a lone star pattern is a pattern node (MatchStar) valid only inside a sequence: judged through that embedding
        st2, n2 = _wrap('match _:\n case [', ' ]: pass', lambda m: m.body[0].cases[0].pattern.patterns, text, 2)
        if st2 == 'ok' and len(n2) == 1 and isinstance(n2[0], ast.MatchStar) and _last_code_token(text) != ',':
            return 'ok', n2[0]
        return 'invalid', None
    p = nodes[0]
    if p.lineno == 0:
        # the wrapper parentheses were absorbed (open sequence `a, b` became `(a, b)`): positions of the root not comparable
        return 'ok-rootpos-unknown', p
    return 'ok', p


def _ref_comprehensions(text):
    def ex(m):
        v = m.body[0].value
        return v.generators if isinstance(v, ast.ListComp) else None
    return _wrap('[_', ']', ex, text)


def _ref_comprehension(text):
    st, gs = _ref_comprehensions(text)
    if st != 'ok':
        return st, None
    return ('ok', gs[0]) if len(gs) == 1 else ('invalid', None)


def _ref_comp_ifs(text):
    def ex(m):
        v = m.body[0].value
        return v.generators[0].ifs if isinstance(v, ast.ListComp) and len(v.generators) == 1 else None
    return _wrap('[_ for _ in _', ']', ex, text)


def _ref_arguments(text):
    def ex(m):
        return [m.body[0].args]
    st, nodes = _wrap('def f(', '): pass', ex, text)
    return (st, nodes[0]) if st == 'ok' else (st, None)


def _ref_arguments_lambda(text):
    def ex(m):
        v = m.body[0].value
        return [v.args] if isinstance(v, ast.Lambda) else None
    st, nodes = _wrap('(lambda', ': 0)', ex, text)
    return (st, nodes[0]) if st == 'ok' else (st, None)


def _ref_arg(text):
    st, a = _ref_arguments(text)
    if st != 'ok':
        # the arg of a vararg may carry a starred annotation (`*args: *Ts`)
        st2, nodes = _wrap('def f(*', '): pass', lambda m: [m.body[0].args.vararg] if m.body[0].args.vararg and not m.body[0].args.kwonlyargs and not m.body[0].args.kwarg else None, text)
        if st2 == 'ok' and nodes[0] is not None and _last_code_token(text) != ',':
            return 'ok', nodes[0]
        return 'invalid', None
    if a.posonlyargs or a.vararg or a.kwonlyargs or a.kwarg or a.defaults or len(a.args) != 1:
        return 'invalid', None
    if _last_code_token(text) == ',':
        return 'invalid-trailing-comma', None
    return 'ok', a.args[0]


def _ref_importfrom_names(text):
    def ex(m):
        return m.body[0].names
    if text.strip() == '*':
        m = _p('from . import *')
        return ('ok', _shift_all(m.body[0].names, 0, -14)) if text == '*' else ('unsupported', None)
    return _wrap('from . import (', ')', ex, text)


def _ref_importfrom_name(text):
    st, ns = _ref_importfrom_names(text)
    if st != 'ok':
        return st, None
    return ('ok', ns[0]) if len(ns) == 1 and not _last_code_token(text) == ',' else ('invalid', None)


def _ref_import_names(text):
    if '\n' in text or '#' in text:
        return 'unsupported', None
    m = _p('import ' + text)
    if m is None or len(m.body) != 1 or not isinstance(m.body[0], ast.Import) or _last_code_token(text) == ',':
        return 'invalid', None
    return 'ok', _shift_all(m.body[0].names, 0, -7)


def _ref_import_name(text):
    st, ns = _ref_import_names(text)
    if st != 'ok':
        return st, None
    return ('ok', ns[0]) if len(ns) == 1 else ('invalid', None)


def _ref_withitems(text):
    def ex(m):
        return m.body[0].items
    return _wrap('with (', '): pass' if _last_code_token(text) == ',' else ',): pass', ex, text)


def _ref_withitem(text):
    st, its = _ref_withitems(text)
    if st != 'ok':
        return st, None
    return ('ok', its[0]) if len(its) == 1 and not _last_code_token(text) == ',' else ('invalid', None)


def _ref_type_params(text):
    def ex(m):
        return m.body[0].type_params
    return _wrap('def f[', '](): pass', ex, text)


def _ref_type_param(text):
    st, tps = _ref_type_params(text)
    if st != 'ok':
        return st, None
    return ('ok', tps[0]) if len(tps) == 1 and not _last_code_token(text) == ',' else ('invalid', None)


def _ref_decorators(text):
    m = _p(text + '\ndef f(): pass')
    if m is None or len(m.body) != 1 or not isinstance(m.body[0], ast.FunctionDef):
        return 'invalid', None
    return 'ok', m.body[0].decorator_list


def _ref_assign_targets(text):
    if text.rstrip(' \t\n').endswith('\\') or '\n' in text.strip('\n') or text.startswith('\n'):
        return 'unsupported', None
    t = text.rstrip()
    if '\n' in t and not t.endswith('='):
        return 'unsupported', None
    m = _p(t + (' _' if t.endswith('=') else ' = _'))
    if m is None or len(m.body) != 1 or not isinstance(m.body[0], ast.Assign):
        return 'invalid', None
    return 'ok', m.body[0].targets


def _ref_op(kind):
    def f(text):
        if kind == 'unaryop':
            st, nodes = _wrap('(', 'b)', lambda m: [m.body[0].value.op] if isinstance(m.body[0].value, ast.UnaryOp) and isinstance(m.body[0].value.operand, ast.Name) else None, text)
        elif kind == 'boolop':
            st, nodes = _wrap('(a', 'b)', lambda m: [m.body[0].value.op] if isinstance(m.body[0].value, ast.BoolOp) and len(m.body[0].value.values) == 2 else None, text)
        elif kind == 'operator':
            st, nodes = _wrap('(a', 'b)', lambda m: [m.body[0].value.op] if isinstance(m.body[0].value, ast.BinOp) and isinstance(m.body[0].value.right, ast.Name) and isinstance(m.body[0].value.left, ast.Name) else None, text)
            if st != 'ok':
                # augmented form `+=`
                m = _p('a ' + text.strip() + ' b') if '\n' not in text and '#' not in text else None
                if m is not None and len(m.body) == 1 and isinstance(m.body[0], ast.AugAssign):
                    return 'ok', m.body[0].op
        else:
            st, nodes = _wrap('(a', 'b)', lambda m: m.body[0].value.ops if isinstance(m.body[0].value, ast.Compare) and len(m.body[0].value.ops) == 1 and isinstance(m.body[0].value.comparators[0], ast.Name) else None, text)
        return (st, nodes[0]) if st == 'ok' else (st, None)
    return f


_REF = {
    'expr': _ref_expr, 'expr_slice': _ref_expr_slice, 'expr_arglike': _ref_expr_arglike, '_arglikes': _ref_arglikes,
    '_arglike': _ref_arglike, 'keyword': _ref_keyword,
    'exec': _ref_stmts, 'stmts': _ref_stmts, 'stmt': _ref_stmt, 'ExceptHandler': _ref_handler, '_ExceptHandlers': _ref_handlers,
    'match_case': _ref_case, '_match_cases': _ref_cases, 'pattern': _ref_pattern,
    'comprehension': _ref_comprehension, '_comprehensions': _ref_comprehensions, '_comprehension_ifs': _ref_comp_ifs,
    'arguments': _ref_arguments, 'arguments_lambda': _ref_arguments_lambda, 'arg': _ref_arg,
    'ImportFrom_name': _ref_importfrom_name, '_ImportFrom_names': _ref_importfrom_names,
    'Import_name': _ref_import_name, '_Import_names': _ref_import_names,
    'withitem': _ref_withitem, '_withitems': _ref_withitems, 'type_param': _ref_type_param, '_type_params': _ref_type_params,
    '_decorator_list': _ref_decorators, '_Assign_targets': _ref_assign_targets,
    'boolop': _ref_op('boolop'), 'operator': _ref_op('operator'), 'unaryop': _ref_op('unaryop'), 'cmpop': _ref_op('cmpop'),
}

# how pfst presents the list-valued modes: (container class name, field)
LIST_MODES = {
    '_arglikes': ('_arglikes', 'arglikes'), '_ExceptHandlers': ('_ExceptHandlers', 'handlers'), '_match_cases': ('_match_cases', 'cases'),
    '_comprehensions': ('_comprehensions', 'generators'), '_comprehension_ifs': ('_comprehension_ifs', 'ifs'),
    '_ImportFrom_names': ('_aliases', 'names'), '_Import_names': ('_aliases', 'names'), '_withitems': ('_withitems', 'items'),
    '_type_params': ('_type_params', 'type_params'), '_decorator_list': ('_decorator_list', 'decorator_list'),
    '_Assign_targets': ('_Assign_targets', 'targets'),
}


def mode_for_root(a):
    """Parse mode to use as reference for a live pfst root node (copy()/cut() results, non-Module roots)."""
    n = type(a).__name__
    if isinstance(a, ast.Module):
        return 'exec'
    if isinstance(a, ast.stmt):
        return 'stmt'
    if isinstance(a, ast.ExceptHandler):
        return 'ExceptHandler'
    if isinstance(a, ast.match_case):
        return 'match_case'
    if isinstance(a, ast.pattern):
        return 'pattern'
    if isinstance(a, ast.Slice):
        return 'expr_slice'
    if isinstance(a, ast.Starred):
        return 'expr_arglike'
    if isinstance(a, ast.expr):
        if isinstance(a, ast.Tuple) and any(isinstance(e, ast.Slice) for e in a.elts):
            return 'expr_slice'
        return 'expr'
    if isinstance(a, ast.comprehension):
        return 'comprehension'
    if isinstance(a, ast.arguments):
        return 'arguments'
    if isinstance(a, ast.arg):
        return 'arg'
    if isinstance(a, ast.keyword):
        return 'keyword'
    if isinstance(a, ast.withitem):
        return 'withitem'
    if isinstance(a, ast.type_param):
        return 'type_param'
    if isinstance(a, ast.alias):
        return 'ImportFrom_name' if '.' not in a.name else 'Import_name'
    if isinstance(a, (ast.boolop, ast.operator, ast.unaryop, ast.cmpop)):
        return {ast.boolop: 'boolop', ast.operator: 'operator', ast.unaryop: 'unaryop', ast.cmpop: 'cmpop'}[type(a).__mro__[1]]
    if n == '_aliases':
        return '_Import_names' if any('.' in x.name for x in a.names) else '_ImportFrom_names'
    for mode, (cls, field) in LIST_MODES.items():
        if n == cls and mode != '_Import_names':
            return mode
    return None


def compare_with_ref(a, mode, text):
    """Compare a live pfst node (root, from `text` in `mode`) with the reference. Returns (verdict, detail):
    verdict True / False / None (not judged)."""
    from .base import D, S
    st, r = ref(mode, text)
    if st in ('unsupported',):
        return None, 'unsupported'
    if st.startswith('invalid'):
        return False, 'reference-rejects'
    if isinstance(r, list):
        cls_field = LIST_MODES.get(mode)
        if cls_field is None:
            return None, 'unsupported-list'
        got = getattr(a, cls_field[1], None)
        if got is None:
            return False, f'root is {type(a).__name__}, expected container with .{cls_field[1]}'
        if mode == '_arglikes':
            pass
        if len(got) != len(r):
            return False, f'length {len(got)} != reference {len(r)}'
        for x, y in zip(got, r):
            if D(x) != D(y):
                return False, 'structure' if S(x) != S(y) else 'positions'
        return True, 'list'
    if st == 'ok-rootpos-unknown':
        if S(a) != S(r):
            return False, 'structure'
        for x, y in zip(ast.iter_child_nodes(a), ast.iter_child_nodes(r)):
            if D(x) != D(y):
                return False, 'positions'
        return True, 'children-only'
    if isinstance(r, (ast.boolop, ast.operator, ast.unaryop, ast.cmpop)):
        return (type(a) is type(r)), 'operator'
    if D(a) == D(r):
        return True, 'node'
    return False, 'structure' if S(a) != S(r) else 'positions'
