#!/bin/bash
# usage: tools/sweep.sh "<seeds>" [props...]   -- runs quick checks on the unchanged tree, prints anything that is not HELD
SEEDS=${1:-0}; shift
PROPS=${@:-C01 C02 C03 C04 C05 C06 C07 C08 C09 C10 C11 C12 C13 C14 C15 C16 C17 C18 C19 C20}
for p in $PROPS; do for s in $SEEDS; do
  out=$(/verif/check $p --seed $s 2>&1); rc=$?
  echo "$p seed=$s rc=$rc $(echo "$out" | grep -c '^KNOWN-FINDING') known $(echo "$out" | grep '^\[' | sed 's/ ::.*//')"
  if [ $rc -ne 0 ]; then echo "$out" | grep -A1 "^VIOLATION\|^INCONCLUSIVE" | cut -c1-700 | head -12; fi
done; done
