"""C14 - traversal visits every node once, in source order, consistently across APIs."""

import ast

META = {
    'level': 'exploration',
    'rule': ('per program (GRAMMAR instances of every node class + REAL windows/files): walk(True) vs the set of ast.walk nodes, parent-before-child '
             'and sibling order by independent source positions; then the full parameter product all in {True, False, type, set of types, callable} x on in '
             '{enter, leave, both} x back x self_ x recurse compared with the order derived from the validated walk and the pure-AST parent map; '
             'step_fwd/step_back chains, next/prev inverse law per filter, next_child/prev_child chains, first/last_child, send(False)/send(True), '
             'child_path/child_from_path bijection. A cell is (check, parameter combination, root node class mix). GRAMMAR includes generated calls / class headers mixing positionals, *stars, keywords and **unpacks in every order CPython accepts, all-positional-only parameter lists and Dicts with ** unpacks at every index.'),
    'budget': {'quick': 40, 'thorough': 600},
    'floors': {'quick': {'programs': 150, 'walk_param_combos': 5000, 'nextprev_pairs': 20000, 'paths_checked': 20000},
               'thorough': {'programs': 1500, 'walk_param_combos': 50000, 'nextprev_pairs': 200000, 'paths_checked': 200000}},
    'assumptions': ['sibling order reference = CPython ast positions (first positioned descendant for position-less nodes); operator/ctx nodes are only required to appear once',
                    "the 'loc' filter is checked for cross-API consistency only (no independent predicate)"],
    'technique': 'runtime monitoring: offline relation checks between walk/step/next/prev/path results and a positional reference order',
}

EXTRA = [
    'call(a, *b, c=d, *e, **f, g=h)', 'class C(a, k=v, *b, **kw): pass', '{a: b, **c, d: e}',
    'def f[T, *Ts, **P](a, /, b, *c, d=1, **e) -> r: pass',
    'match x:\n case {"k": v, **rest}: pass\n case C(a, b=c): pass\n case [a, *b] | (1 as z): pass',
    '@d1\n@d2\nasync def f(): await x', 'f"{a!r:>{w}} {b=}"', 'a < b <= c', 'x = y = z', 'with a as b, c: pass',
    'try: pass\nexcept* E as e: pass\nelse: pass\nfinally: pass', '[i async for i in j if k if l for m in n]',
    'lambda a, *b, c=1, **d: 0', 'import a.b as c, d', 'from . import (x as y, z)', 'type A[T: int] = list[T]', 'global a, b',
    'del a, b[c]', 'a[b:c:d, e]', 'not a and b or c', 'def f(a=1, /, b=2, *, c, d=3): pass', 'lambda: (yield)',
    'f(a)(b)[c].d', 'x = {**a, 1: 2, **b}', 'print(*a, sep="", *b)', 'class K[T: (int, str), *U, **V]: pass',
]


def startpos(a):
    if hasattr(a, 'lineno'):
        return (a.lineno, a.col_offset)
    best = None
    for n in ast.walk(a):
        if hasattr(n, 'lineno'):
            p = (n.lineno, n.col_offset)
            if best is None or p < best:
                best = p
    return best


def admits(all_, a):
    """Independent reading of the documented `all` filter (None = no independent predicate)."""
    if all_ is True:
        return True
    if all_ is False:
        if isinstance(a, (ast.expr_context, ast.operator, ast.unaryop, ast.boolop, ast.cmpop)):
            return False
        if isinstance(a, ast.arguments):
            return bool(a.posonlyargs or a.args or a.vararg or a.kwonlyargs or a.kwarg)
        return True
    if isinstance(all_, type):
        return type(a) is all_
    if isinstance(all_, (set, frozenset)):
        return type(a) in all_
    if callable(all_):
        return bool(all_(a.f))
    return None


def expected_order(root_a, kids, back, on, self_, recurse, flt, stop_at=None, force_at=None):
    """Sequence of (node, leaving) from the validated child order."""
    out = []

    def rec(a, depth):
        ok = flt(a)
        is_self = depth == 0
        emit = ok and (self_ or not is_self)
        if emit and on in ('enter', 'both'):
            out.append((a, False))
        go = recurse or depth == 0
        if go:
            ch = kids[id(a)]
            for c in (reversed(ch) if back else ch):
                rec(c, depth + 1)
        if emit and on in ('leave', 'both'):
            out.append((a, True))
    rec(root_a, 0)
    return out


def check_tree(ctx, root, label):
    from ..base import short
    src = root.src
    case = {'src': src if len(src) < 6000 else None, 'label': label}
    ref = list(ast.walk(root.a))
    refset = {id(n) for n in ref}
    seq = list(root.walk(True))
    ctx.count('programs')
    ctx.count('nodes_walked', len(seq))
    ctx.evaluations += 1
    ids = [id(f.a) for f in seq]
    if len(ids) != len(set(ids)):
        ctx.violation('walk-yields-node-twice', f'{label}: walk(True) yields {len(ids) - len(set(ids))} duplicate nodes', case)
        return
    if set(ids) != refset:
        ctx.violation('walk-set-differs-from-ast', f'{label}: walk(True) yields {len(ids)} nodes, ast.walk has {len(refset)}', case)
        return
    pos = {id(f.a): i for i, f in enumerate(seq)}
    kids = {}
    for f in seq:
        a = f.a
        ch = list(ast.iter_child_nodes(a))
        ch.sort(key=lambda c: pos[id(c)])
        kids[id(a)] = ch
        last = None
        for c in ch:
            if pos[id(c)] < pos[id(a)]:
                ctx.violation('child-before-parent', f'{label}: {type(c).__name__} yielded before its parent {type(a).__name__}', case)
            if isinstance(c, (ast.expr_context, ast.operator, ast.unaryop, ast.boolop, ast.cmpop)):
                continue
            if isinstance(a, ast.JoinedStr) or type(a).__name__ == 'TemplateStr':
                # CPython gives the '=' debug text constant of f'{x=}' anomalous positions; list order is the source order
                sp = (0, a.values.index(c)) if c in a.values else startpos(c)
                if last is not None and last[0] != 0:
                    last = None
            else:
                sp = startpos(c)
            if sp is None:
                continue
            if last is not None and sp < last:
                ctx.violation('sibling-order-not-source-order', f'{label}: in {type(a).__name__} child {type(c).__name__} at {sp} yielded after position {last}; src={short(f.src, 120)!r}', case)
            last = sp
        ctx.count('sibling_lists_checked')
    # DFS property: subtree contiguous
    exp = [a for a, _ in expected_order(root.a, kids, False, 'enter', True, True, lambda a: True)]
    if [id(a) for a in exp] != ids:
        ctx.violation('walk-not-depth-first', f'{label}: walk(True) is not the depth-first order of its own sibling order', case)
        return
    cls_mix = type(root.a.body[0]).__name__ if getattr(root.a, 'body', None) and isinstance(root.a.body, list) and root.a.body else type(root.a).__name__

    # parameter product
    some_types = {ast.Name, ast.Constant, ast.Call, ast.arg, ast.keyword, ast.Load, ast.Add}
    filters = [('True', True), ('False', False), ('Name', ast.Name), ('set', some_types), ('callable', lambda f: f.is_expr)]
    for fname, all_ in filters:
        flt = (lambda a, all_=all_: admits(all_, a))
        for on in ('enter', 'leave', 'both'):
            for back in (False, True):
                for self_ in (True, False):
                    for recurse in (True, False):
                        want = expected_order(root.a, kids, back, on, self_, recurse, flt)
                        try:
                            got = list(root.walk(all_, on, self_=self_, recurse=recurse, back=back))
                        except Exception as e:
                            ctx.violation('walk-raised', f'{label}: walk({fname}, {on}, self_={self_}, recurse={recurse}, back={back}) raised {type(e).__name__}: {e}', case)
                            continue
                        if on == 'both':
                            g = [(id(f.a), lv) for f, lv in got]
                        else:
                            g = [(id(f.a), on == 'leave') for f in got]
                        w = [(id(a), lv) for a, lv in want]
                        ctx.count('walk_param_combos')
                        ctx.cell('walk', fname, on, back, self_, recurse, cls_mix)
                        if g != w:
                            i = next((i for i, (x, y) in enumerate(zip(g, w)) if x != y), min(len(g), len(w)))
                            ctx.violation(f'walk-order:{on}:back={back}', f'{label}: walk({fname}, {on!r}, self_={self_}, recurse={recurse}, back={back}) differs from reference order at index {i} (got {len(g)} yields, want {len(w)})',
                                          dict(case, params=[fname, on, back, self_, recurse]))
    # step_fwd / step_back
    for fname, all_ in (('True', True), ('False', False), ('loc', 'loc'), ('Name', ast.Name)):
        for back in (False, True):
            w = [id(f.a) for f in root.walk(all_, back=back)]
            if w and w[0] == id(root.a):
                w = w[1:]
            g = []
            cur = root
            step = (lambda n: n.step_back(all_)) if back else (lambda n: n.step_fwd(all_))
            for _ in range(len(seq) + 5):
                cur = step(cur)
                if cur is None:
                    break
                g.append(id(cur.a))
            ctx.count('step_chains')
            ctx.cell('step', fname, back)
            if g != w:
                ctx.violation(f'step-chain-differs-from-walk:back={back}', f'{label}: repeated step_{"back" if back else "fwd"}({fname}) gives {len(g)} nodes, walk({fname}, back={back}) minus root {len(w)}', case)
    # next/prev, next_child/prev_child, first/last child
    rnd = ctx.rnd
    sample = seq if len(seq) <= 400 else rnd.sample(seq, 400)
    for fname, all_ in (('True', True), ('False', False), ('loc', 'loc'), ('set', some_types)):
        adm = {id(f.a) for f in root.walk(all_)}
        for f in sample:
            if id(f.a) not in adm:
                continue
            n = f.next(all_)
            if n is not None:
                ctx.count('nextprev_pairs')
                if n.prev(all_) is not f:
                    ctx.violation('next-prev-not-inverse', f'{label}: with all={fname}: {f!r}.next() = {n!r} but its prev() is {n.prev(all_)!r}', case)
            p = f.prev(all_)
            if p is not None:
                ctx.count('nextprev_pairs')
                if p.next(all_) is not f:
                    ctx.violation('prev-next-not-inverse', f'{label}: with all={fname}: {f!r}.prev() = {p!r} but its next() is {p.next(all_)!r}', case)
        for f in (sample if len(sample) < 120 else rnd.sample(sample, 120)):
            w = [id(c.a) for c in f.walk(all_, self_=False, recurse=False)]
            g, c = [], None
            for _ in range(len(w) + 3):
                c = f.next_child(c, all_)
                if c is None:
                    break
                g.append(id(c.a))
            wb = [id(c.a) for c in f.walk(all_, self_=False, recurse=False, back=True)]
            gb, c = [], None
            for _ in range(len(wb) + 3):
                c = f.prev_child(c, all_)
                if c is None:
                    break
                gb.append(id(c.a))
            ctx.count('child_chains')
            if g != w or gb != wb:
                ctx.violation('next_child-chain-differs-from-walk', f'{label}: all={fname} on {f!r}: next_child chain {len(g)} vs walk(recurse=False) {len(w)}; prev_child {len(gb)} vs back walk {len(wb)}', case)
            fc, lc = f.first_child(all_), f.last_child(all_)
            if (id(fc.a) if fc else None) != (w[0] if w else None) or (id(lc.a) if lc else None) != (w[-1] if w else None):
                ctx.violation('first-last-child-differs-from-walk', f'{label}: all={fname} on {f!r}: first_child={fc!r} last_child={lc!r} vs walk ends', case)
        # reference for the children walk itself (all filters with an independent predicate)
        if fname in ('True', 'False', 'set'):
            for f in (sample if len(sample) < 60 else rnd.sample(sample, 60)):
                w = [id(c) for c in kids[id(f.a)] if admits(all_, c)]
                g = [id(c.a) for c in f.walk(all_, self_=False, recurse=False)]
                if g != w:
                    ctx.violation('children-walk-differs-from-reference', f'{label}: all={fname} on {f!r}: walk(recurse=False) children differ from reference', case)
    # paths
    seen = {}
    for f in sample:
        p1 = root.child_path(f)
        p2 = root.child_path(f, True)
        ctx.count('paths_checked')
        if root.child_from_path(p1) is not f or root.child_from_path(p2) is not f:
            ctx.violation('child-path-not-inverse', f'{label}: child_from_path(child_path({f!r})) is not the node (path {p2!r})', case)
        if p2 in seen and seen[p2] is not f:
            ctx.violation('child-path-not-injective', f'{label}: two nodes share path {p2!r}', case)
        seen[p2] = f
    # send(False) / send(True)
    if len(seq) > 3:
        for trial in range(4):
            x = rnd.choice(seq[1:])
            # send(False) on enter: subtree of x skipped
            g = []
            gen = root.walk(True)
            for f in gen:
                g.append(id(f.a))
                if f is x:
                    gen.send(False)
            sub = {id(n) for n in ast.walk(x.a)} - {id(x.a)}
            w = [i for i in ids if i not in sub]
            ctx.count('send_checks')
            if g != w:
                ctx.violation('send-false-not-honoured', f'{label}: send(False) at {x!r}: got {len(g)} yields want {len(w)}', case)
            # recurse=False + send(True) on a direct child: its whole subtree is walked
            ch = kids[id(root.a)]
            if ch:
                c = rnd.choice(ch)
                g = []
                gen = root.walk(True, recurse=False)
                for f in gen:
                    g.append(id(f.a))
                    if f.a is c:
                        gen.send(True)
                w = [id(root.a)]
                for k in ch:
                    w.append(id(k))
                    if k is c:
                        w.extend(id(a) for a, _ in expected_order(c, kids, False, 'enter', False, True, lambda a: True))
                ctx.count('send_checks')
                if g != w:
                    ctx.violation('send-true-not-honoured', f'{label}: recurse=False with send(True) at {type(c).__name__}: got {len(g)} yields want {len(w)}', case)
    if len(ctx.samples) < 5:
        ctx.sample({'label': label, 'nodes': len(seq), 'src': short(src, 160)})


def run(ctx):
    from fst import FST
    from .. import corpus
    progs = [(f'GRAMMAR[{i}]', s) for i, s in enumerate(corpus.GRAMMAR_PROGRAMS)] + [(f'EXTRA[{i}]', s) for i, s in enumerate(EXTRA)]
    for i, (label, src) in enumerate(progs):
        if ctx.mine(i):
            try:
                root = FST(src, 'exec')
            except Exception:
                ctx.count('program_rejected')
                continue
            check_tree(ctx, root, label)
    while not ctx.out_of_time():
        fn, src = corpus.window(ctx.rnd, max_len=2500 if ctx.tier == 'quick' else 12000)
        if ctx.rnd.random() < 0.3:
            src, _ = corpus.relayout(src, ctx.rnd)
        try:
            root = FST(src, 'exec')
        except Exception:
            continue
        check_tree(ctx, root, fn)


def replay(ctx, case):
    from fst import FST
    if case.get('src'):
        check_tree(ctx, FST(case['src'], 'exec'), case.get('label', 'replay'))
