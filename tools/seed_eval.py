#!/usr/bin/env python3
"""Confirm a seeded change and run checks against it.
usage: seed_eval.py <name> <patch.diff> <demo.py> <breaks PROP> <needs text> [--checks C01,C02] [--suite]
Stores /verif/seeded/<name>/{patch.diff,demo.py,meta.json}. Uses a scratch worktree of /repo HEAD under /tmp, removed afterwards."""
import json, os, shutil, subprocess, sys, tempfile
name, patch, demo, prop, needs = sys.argv[1:6]
checks = prop
suite = '--suite' in sys.argv
for a in sys.argv[6:]:
    if a.startswith('--checks='):
        checks = a.split('=', 1)[1]
out = f'/verif/seeded/{name}'
os.makedirs(out, exist_ok=True)
if os.path.abspath(patch) != f'{out}/patch.diff':
    shutil.copy(patch, f'{out}/patch.diff'); shutil.copy(demo, f'{out}/demo.py')
wt = tempfile.mkdtemp(prefix='pfst_seed_', dir='/tmp'); os.rmdir(wt)
subprocess.check_call(['git', '-C', '/repo', 'worktree', 'add', '-q', '--detach', wt, 'HEAD'])
meta = {'name': name, 'breaks': prop, 'needs': needs, 'ran': []}
try:
    old = json.load(open(f'{out}/meta.json'))
    if 'suite_with_patch' in old and not suite:
        meta['suite_with_patch'] = old['suite_with_patch']
    if needs in ('', '-', 'x', 'see DESIGN') and old.get('needs'):
        meta['needs'] = old['needs']
except Exception:
    pass
vout = tempfile.mkdtemp(prefix='pfst_seedout_', dir='/tmp')
try:
    env = dict(os.environ, PYTHONPATH=f'{wt}/src')
    # demo path rewrite: demos reference their own worktree path sometimes
    dsrc = open(f'{out}/demo.py').read()
    r0 = subprocess.run(['/venv/bin/python', '-W', 'ignore', f'{out}/demo.py'], env=env, capture_output=True, text=True, timeout=600)
    meta['demo_without_patch_rc'] = r0.returncode
    a = subprocess.run(['git', '-C', wt, 'apply', f'{out}/patch.diff'], capture_output=True, text=True)
    if a.returncode:   # the repository moved on (fix: commits): retry with fuzz, the stored patch is refreshed when that works
        a = subprocess.run(['patch', '-p1', '-F3', '-s', '-i', f'{out}/patch.diff'], cwd=wt, capture_output=True, text=True)
        if a.returncode == 0:
            d = subprocess.run(['git', '-C', wt, 'diff', '--', 'src'], capture_output=True, text=True).stdout
            open(f'{out}/patch.diff', 'w').write(d)
            print('  patch refreshed against current HEAD')
    meta['patch_applies'] = a.returncode == 0
    if a.returncode:
        print('PATCH DOES NOT APPLY', a.stderr, a.stdout)
    r1 = subprocess.run(['/venv/bin/python', '-W', 'ignore', f'{out}/demo.py'], env=env, capture_output=True, text=True, timeout=600)
    meta['demo_with_patch_rc'] = r1.returncode
    meta['demo_with_patch_tail'] = (r1.stdout + r1.stderr)[-400:]
    if suite:
        t = subprocess.run(['/venv/bin/python', '-m', 'pytest', '-q', '-p', 'no:cacheprovider', '--timeout=900'], cwd=wt, env=env, capture_output=True, text=True)
        meta['suite_with_patch'] = t.stdout.strip().splitlines()[-1] if t.stdout.strip() else t.stderr[-200:]
    meta['confirmed'] = meta['demo_without_patch_rc'] == 0 and meta['demo_with_patch_rc'] != 0 and meta['patch_applies'] and ('suite_with_patch' not in meta or '304 passed' in meta['suite_with_patch'] and '3 failed' in meta['suite_with_patch'])
    for c in checks.split(','):
        for seed in os.environ.get('SEEDS', '0').split(','):
            e = dict(os.environ, VERIF_REPO_SRC=f'{wt}/src', VERIF_SEED=seed, VERIF_OUT=vout)
            r = subprocess.run(['/verif/check', c, '--tier', 'quick', '--seed', seed], env=e, capture_output=True, text=True)
            keys = sorted({l.split('::')[0].strip()[4:] for l in r.stdout.splitlines() if l.strip().startswith('key=')})
            meta['ran'].append({'check': c, 'seed': int(seed), 'exit': r.returncode, 'violation_keys': keys[:8]})
            print(f'  {name}: check {c} seed {seed} -> exit {r.returncode} {keys[:4]}')
finally:
    subprocess.call(['git', '-C', '/repo', 'worktree', 'remove', '--force', wt])
    shutil.rmtree(vout, ignore_errors=True)
meta['caught_by'] = sorted({x['check'] for x in meta['ran'] if x['exit'] == 1})
json.dump(meta, open(f'{out}/meta.json', 'w'), indent=1)
print(json.dumps({k: meta[k] for k in ('name', 'confirmed', 'demo_without_patch_rc', 'demo_with_patch_rc', 'caught_by') if k in meta}), meta.get('suite_with_patch', ''))
