"""C04 - formatting and comments outside the edited element are preserved byte for byte."""

import ast
import io
import tokenize

META = {
    'level': 'exploration',
    'rule': ('edit sequences (replace / remove / insert / append / put_slice / cut on statements, expressions, aliases, keywords, withitems, handlers, patterns ...) on comment-dense REAL '
             'windows and LAYOUT-mutated programs (comments after every kind of line, own-line comment blocks, semicolons, continuations, tabs, multi-byte), options from the '
             'documented trivia subset x pep8space x elif_ x docstr. Before each call the monitor computes, from the PRE-edit text only (tokenize + reference ast positions), the '
             'allowed region R: the element extent, widened by its enclosing parentheses, the adjoining separators and the whitespace/continuations around them, the comment '
             'lines the effective trivia option selects (as documented), for statements the adjacent blank lines, and the else/elif/finally header when a block is created or '
             'emptied. Oracle after each successful edit: (1) there is a single splice inside R explaining the change (after starts with before[:r0] and ends with before[r1:]); '
             'else (2) every token (COMMENT included) outside R keeps its text and order (subsequence of the new token stream) and every non-blank line wholly outside the '
             'touched line range is byte-identical and in order. A cell is (op, element class, field, trivia option, level that passed). A deterministic BOUNDARY table (18 hostile comment layouts x every target x 12 operations x 7 trivia options) runs first in both tiers; a comment outside the statement that encloses an expression-level element can never be attributed to that element\'s edit.'),
    'budget': {'quick': 45, 'thorough': 900},
    'floors': {'quick': {'edits_judged': 6000, 'level1_exact_splice': 3000, 'comments_outside_region_checked': 20000}, 'thorough': {'edits_judged': 150000, 'level1_exact_splice': 80000, 'comments_outside_region_checked': 500000}},
    'assumptions': ['R is computed by the monitor from the pre-edit text; it is deliberately a superset of what a minimal edit needs (both adjoining separators, all enclosing parentheses), so it cannot raise '
                    'an alarm for a legitimate edit but is blind to changes confined to those few tokens', 'extra tokens outside R (delimiters that a container needs to become multi-line) are tolerated at level 2; lost or altered ones are not'],
    'technique': 'runtime monitoring: hook-exit oracle comparing pre/post text against an independently computed allowed region',
}

SEP_TOKENS = {',', ';', '=', '|', 'and', 'or', 'if', 'for', 'async', '@', ':', 'as', 'in', '<', '>', '<=', '>=', '==', '!=', 'is', 'not', '->', ':=', '+', '-', '*', '/', '//', '%', '**', '@', '<<', '>>', '&', '^', 'else', 'elif', 'import', 'del', 'global', 'nonlocal', 'with', 'except', 'case', 'return', 'from'}
TRIVIA_CHOICES = [None, None, None, False, 'all', (), 'block+1', ('all', 'line'), (False, 'all'), ('block', 'block'), True, (False, False)]


def offs_table(lines):
    t = [0]
    for l in lines:
        t.append(t[-1] + len(l) + 1)
    return t


def parse_trivia(t):
    if t is None or t is True:
        return 'block', 'line'
    if t is False:
        return 'none', 'line'
    if t == ():
        return 'none', 'none'
    if isinstance(t, tuple):
        if len(t) == 1:
            lead, trail = 'block', t[0]
        else:
            lead, trail = t
        lead = 'none' if lead is False else 'block' if lead is True else str(lead)
        trail = 'none' if trail is False else 'line' if trail is True else str(trail)
        return lead, trail
    return str(t), 'line'


class Text:
    """pre-edit text with tokens and char offsets"""

    def __init__(self, src):
        self.src = src
        self.lines = src.split('\n')
        self.ot = offs_table(self.lines)
        try:
            self.toks = [t for t in tokenize.generate_tokens(io.StringIO(src).readline)]
        except Exception:
            self.toks = None
        if self.toks is not None:
            self.code = [t for t in self.toks if t.type not in (tokenize.NL, tokenize.NEWLINE, tokenize.INDENT, tokenize.DEDENT, tokenize.ENDMARKER, tokenize.COMMENT) and t.string != '']
            self.comments = [t for t in self.toks if t.type == tokenize.COMMENT]
            self.code_lines = set()
            for t in self.code:
                self.code_lines.update(range(t.start[0], t.end[0] + 1))
            self.comment_lines = {t.start[0] for t in self.comments}

    def off(self, ln1, col):
        return self.ot[ln1 - 1] + col

    def b2c(self, ln1, b):
        return len(self.lines[ln1 - 1].encode()[:b].decode())

    def extent(self, node):
        return self.off(node.lineno, self.b2c(node.lineno, node.col_offset)), self.off(node.end_lineno, self.b2c(node.end_lineno, node.end_col_offset))

    def tok_off(self, t):
        return self.off(t.start[0], t.start[1]), self.off(t.end[0], t.end[1])


def widen(tx, s0, s1, is_stmt, own_lines, lead, trail, first_ln, last_ln):
    """Widen [s0, s1) per the rule in META. Returns (r0, r1)."""
    code = tx.code
    # enclosing parentheses + adjoining separators (both sides), whitespace / continuations / comments between them stay inside
    li = max((i for i, t in enumerate(code) if tx.tok_off(t)[1] <= s0), default=-1)
    ri = min((i for i, t in enumerate(code) if tx.tok_off(t)[0] >= s1), default=len(code))
    while li >= 0 and ri < len(code) and code[li].string == '(' and code[ri].string == ')':
        li -= 1
        ri += 1
    r0, r1 = s0, s1
    if li >= 0 and (code[li].string in SEP_TOKENS or (li + 1 < len(code) and tx.tok_off(code[li + 1])[0] < s0)):
        # previous separator token belongs to the region
        r0 = tx.tok_off(code[li])[0] if code[li].string in SEP_TOKENS else tx.tok_off(code[li])[1]
        if code[li].string in ('not',) and li > 0 and code[li - 1].string == 'is':
            r0 = tx.tok_off(code[li - 1])[0]
        if code[li].string in ('in',) and li > 0 and code[li - 1].string == 'not':
            r0 = tx.tok_off(code[li - 1])[0]
    elif li >= 0:
        r0 = tx.tok_off(code[li])[1]
    else:
        r0 = 0 if not is_stmt else r0
    if ri < len(code) and code[ri].string in SEP_TOKENS:
        r1 = tx.tok_off(code[ri])[1]
        # whitespace after the separator up to the next token
        r1 = tx.tok_off(code[ri + 1])[0] if ri + 1 < len(code) else len(tx.src)
        if code[ri].string in (':', 'else', 'elif', 'except', 'case', 'import', 'from', 'return', 'with', 'del'):
            r1 = tx.tok_off(code[ri])[0] if not is_stmt else r1
    elif ri < len(code):
        r1 = tx.tok_off(code[ri])[0]
    else:
        r1 = len(tx.src)
    if not is_stmt:
        # the trailing line comment of the element's last line / of its separator's line is selected by trailing != none
        if trail.startswith('none'):
            # keep comments: shrink r1 back to before the first comment after s1
            for c in tx.comments:
                c0 = tx.tok_off(c)[0]
                if s1 <= c0 < r1:
                    r1 = max(s1, c0 - (len(tx.src[:c0]) - len(tx.src[:c0].rstrip(' \t'))))
                    break
        if lead.startswith('none'):
            for c in reversed(tx.comments):
                c1 = tx.tok_off(c)[1]
                if r0 < c1 <= s0 and c.start[0] < first_ln:
                    r0 = min(s0, tx.ot[c.start[0]])   # start of the line after that comment
                    break
        return r0, r1
    # statements
    if own_lines:
        # whole lines; leading trivia
        ln = first_ln
        top = ln
        k = ln - 1
        if not lead.startswith('none'):
            while k >= 1 and k not in tx.code_lines:
                if k in tx.comment_lines:
                    top = k
                elif lead.startswith('block') and not tx.lines[k - 1].strip():
                    break
                k -= 1
        # blank lines directly above (pep8space / '+N')
        k = top - 1
        while k >= 1 and not tx.lines[k - 1].strip():
            top = k
            k -= 1
        r0 = tx.ot[top - 1]
        bot = last_ln
        k = bot + 1
        if trail.startswith(('all', 'block')):
            while k <= len(tx.lines) and k not in tx.code_lines:
                if k in tx.comment_lines:
                    bot = k
                elif trail.startswith('block') and not tx.lines[k - 1].strip():
                    break
                k += 1
        k = bot + 1
        while k <= len(tx.lines) and not tx.lines[k - 1].strip():
            bot = k
            k += 1
        r1 = min(len(tx.src), tx.ot[bot] if bot < len(tx.lines) else len(tx.src))
        if trail.startswith('none') and last_ln in tx.comment_lines:
            pass  # the line comment stays: it is after the element on its last line; region ends at element end on that line but the newline handling is ambiguous - keep whole line (superset)
        return r0, r1
    return r0, r1


def paren_extent(tx, s0, s1):
    """extent widened over directly enclosing ( ) pairs: comments inside the element's own parentheses go with the element"""
    code = tx.code
    li = max((i for i, t in enumerate(code) if tx.tok_off(t)[1] <= s0), default=-1)
    ri = min((i for i, t in enumerate(code) if tx.tok_off(t)[0] >= s1), default=len(code))
    a, b = s0, s1
    while li >= 0 and ri < len(code) and code[li].string == '(' and code[ri].string == ')':
        a, b = tx.tok_off(code[li])[0], tx.tok_off(code[ri])[1]
        li -= 1
        ri += 1
    return a, b


def trivia_selected(tx, s1, fl, ll, lead, trail):
    """{(line, comment text)} the effective trivia option selects for this element (documented meaning of the option)"""
    out = set()
    comments = {t.start[0]: t.string.rstrip() for t in tx.comments}
    if not trail.startswith('none'):
        if ll in comments:
            out.add((ll, comments[ll]))
        nxt = next((t for t in tx.code if tx.tok_off(t)[0] >= s1), None)
        if nxt is not None and nxt.string in (',', '=', '|', 'or', 'and', ')', ']', '}', ';') and nxt.start[0] in comments:
            out.add((nxt.start[0], comments[nxt.start[0]]))
        if trail.startswith(('all', 'block')):
            k = ll + 1
            while k <= len(tx.lines) and k not in tx.code_lines:
                if k in comments:
                    out.add((k, comments[k]))
                elif trail.startswith('block') and not tx.lines[k - 1].strip():
                    break
                k += 1
    if not lead.startswith('none'):
        k = fl - 1
        while k >= 1 and k not in tx.code_lines:
            if k in comments:
                out.add((k, comments[k]))
            elif lead.startswith('block') and not tx.lines[k - 1].strip():
                break
            k -= 1
    return out


def region_for(tx, ref, step, root_live):
    """Allowed region for the step, from the pre-edit text. Returns (r0, r1) or None if not computable."""
    from .. import edits
    try:
        node = edits.resolve(ref, step['path'])
        parent = edits.resolve(ref, step['path'][:-1])
    except Exception:
        return None
    field, idx = step['path'][-1]
    op = step['op']
    lead, trail = parse_trivia(edits.opts_from_json(step['opts']).get('trivia'))
    is_stmt = isinstance(node, (ast.stmt, ast.ExceptHandler, ast.match_case))

    def ext(n):
        if hasattr(n, 'lineno'):
            e0, e1 = tx.extent(n)
            fl = n.lineno
            decos = getattr(n, 'decorator_list', [])
            if decos:
                d0 = tx.off(decos[0].lineno, tx.b2c(decos[0].lineno, decos[0].col_offset))
                at = [t for t in tx.code if t.string == '@' and tx.tok_off(t)[0] < d0]
                if at:
                    e0 = tx.tok_off(at[-1])[0]
                    fl = at[-1].start[0]
            return e0, e1, fl, n.end_lineno
        kids = [ext(c) for c in ast.iter_child_nodes(n)]
        kids = [k for k in kids if k]
        if not kids:
            return None
        # position-less nodes (comprehension, withitem, match_case, arguments, keyword**): span of children, start widened to the introducing keyword by the separator rule
        k0, k1, kf, kl = min(k[0] for k in kids), max(k[1] for k in kids), min(k[2] for k in kids), max(k[3] for k in kids)
        if isinstance(n, ast.match_case):   # a statement-like element: it starts at its `case` keyword (comments between the keyword and the pattern are inside it)
            kw = [t for t in tx.code if t.string == 'case' and tx.tok_off(t)[0] < k0]
            if kw:
                k0, kf = tx.tok_off(kw[-1])[0], kw[-1].start[0]
        return k0, k1, kf, kl

    # lines of the innermost enclosing statement (decorators included): an expression-level edit has no business outside them
    if not is_stmt:
        try:
            for k in range(len(step['path']) - 1, -1, -1):
                anc = edits.resolve(ref, step['path'][:k])
                if isinstance(anc, (ast.stmt, ast.ExceptHandler, ast.match_case)):
                    ea = ext(anc)
                    if ea:
                        step['_stmt_lines'] = (ea[2], ea[3])
                    break
        except Exception:
            pass
    lst = getattr(parent, field) if idx is not None else None
    n = step.get('n', 1)
    if op in ('replace', 'put', 'assign', 'put_slice_one', 'remove', 'delitem', 'put_none', 'cut', 'get_cut', 'put_line_comment'):
        e = ext(node)
        if e is None:
            return None
        s0, s1, fl, ll = e
    elif op in ('put_slice', 'setslice', 'put_slice_none', 'view_remove', 'get_slice_cut', 'view_cut'):
        els = lst[idx:idx + n]
        if not els:
            # pure insertion at idx
            return gap_region(tx, parent, lst, idx, field, ext)
        es = [ext(x) for x in els]
        if any(x is None for x in es):
            return None
        s0, s1, fl, ll = min(x[0] for x in es), max(x[1] for x in es), min(x[2] for x in es), max(x[3] for x in es)
        step['_last_type'] = type(els[-1]).__name__
    elif op in ('insert', 'view_insert'):
        return gap_region(tx, parent, lst, idx, field, ext)
    elif op in ('append', 'view_append', 'extend'):
        return gap_region(tx, parent, lst, len(lst), field, ext)
    elif op in ('prepend', 'prextend'):
        return gap_region(tx, parent, lst, 0, field, ext)
    else:
        return None
    own_lines = is_stmt and not tx.lines[fl - 1][:max(0, s0 - tx.ot[fl - 1])].strip() and not any(t.start[0] == ll and tx.tok_off(t)[0] >= s1 for t in tx.code)
    r0, r1 = widen(tx, s0, s1, is_stmt, own_lines, lead, trail, fl, ll)
    step['_extent'] = (s0, s1)
    step['_lines'] = (fl, ll)
    step['_extent_pars'] = paren_extent(tx, s0, s1)
    step['_trivia_selected'] = trivia_selected(tx, s1, fl, ll, lead, trail)
    dep = set()
    if isinstance(parent, ast.ExceptHandler) and field == 'type' and parent.name:
        dep.update({parent.name, 'as'})
    if isinstance(parent, ast.Raise) and field == 'exc' and parent.cause is not None:
        c0, c1 = paren_extent(tx, *tx.extent(parent.cause))
        dep.update(t.string for t in tx.code if c0 <= tx.tok_off(t)[0] < c1)
        dep.add('from')
    if isinstance(parent, ast.withitem) and field == 'context_expr':
        pass
    step['_dependent'] = dep
    if lst is not None and field in ('orelse', 'finalbody', 'handlers', 'cases', 'body') and op not in ('replace', 'put', 'assign', 'put_slice_one') and (len(lst) <= (n if op in ('put_slice_none', 'view_remove', 'get_slice_cut', 'view_cut', 'put_slice', 'setslice') else 1)):
        step['_block_emptied'] = True
    # a block that gets emptied (orelse / finalbody) takes its header with it; an If in orelse is spelled elif
    if is_stmt and lst is not None and field in ('orelse', 'finalbody', 'body', 'handlers', 'cases') and op in ('remove', 'delitem', 'put_none', 'cut', 'get_cut', 'put_slice_none', 'view_remove', 'get_slice_cut', 'view_cut', 'replace', 'put', 'assign', 'put_slice_one', 'put_slice', 'setslice'):
        if field in ('orelse', 'finalbody'):
            # header line(s) directly above the first element of the block
            first = ext(lst[0])
            if first:
                k = first[2] - 1
                while k >= 1 and (k not in tx.code_lines or tx.lines[k - 1].strip().startswith(('else', 'finally'))):
                    if tx.lines[k - 1].strip().startswith(('else', 'finally')):
                        r0 = min(r0, tx.ot[k - 1])
                        break
                    k -= 1
                # header on the same line (else: x)
                line0 = tx.lines[first[2] - 1]
                if line0.strip().startswith(('else', 'finally', 'elif')):
                    r0 = min(r0, tx.ot[first[2] - 1])
            # everything up to the end of the block may be re-indented when elif <-> else: if changes
            if isinstance(parent, ast.If) and field == 'orelse':
                last = ext(lst[-1])
                if last:
                    r1 = max(r1, min(len(tx.src), tx.ot[last[3]] if last[3] < len(tx.lines) else len(tx.src)))
    return r0, r1


def gap_region(tx, parent, lst, idx, field, ext):
    """region for an insertion before element idx of lst: from the end of the previous element (or container start) to the start of the next (or container end)"""
    r = _gap_region(tx, parent, lst, idx, field, ext)
    return r


def _gap_region(tx, parent, lst, idx, field, ext):
    L = len(lst)
    if idx is None:
        return None
    idx = max(0, min(L, idx if idx >= 0 else L + idx))
    prev = ext(lst[idx - 1]) if idx > 0 and isinstance(lst[idx - 1], ast.AST) else None
    nxt = ext(lst[idx]) if idx < L and isinstance(lst[idx], ast.AST) else None
    pe = ext(parent) if hasattr(parent, 'lineno') or list(ast.iter_child_nodes(parent)) else None
    if prev is None and nxt is None:
        if pe is None:
            return None
        # empty field: anywhere inside the parent after its header tokens - use the whole parent extent to its end plus following blank lines
        r0, r1 = pe[0], pe[1]
    else:
        r0 = prev[0] if prev else (pe[0] if pe else 0)
        r1 = nxt[1] if nxt else (pe[1] if pe else len(tx.src))
        # shrink to the gap proper but keep the neighbours' adjoining separators and trivia lines (superset: from end of prev ELEMENT TEXT to start of next)
        r0 = prev[1] if prev else r0
        r1 = nxt[0] if nxt else r1
        if nxt:
            # leading comment lines above the next element belong to it: stop before them only if they are own-line comments directly above (they must be preserved) -> region ends at the first such comment line
            k = nxt[2] - 1
            top = nxt[2]
            while k >= 1 and k not in tx.code_lines and k in tx.comment_lines:
                top = k
                k -= 1
            if top != nxt[2] and tx.ot[top - 1] >= r0:
                r1 = min(r1, tx.ot[top - 1])
        if not nxt:
            # trailing: blank lines / closing tokens up to the end of the parent line
            k = (prev[3] if prev else pe[3])
            r1 = max(r1, min(len(tx.src), tx.ot[k] if k < len(tx.lines) else len(tx.src)))
            while k + 1 <= len(tx.lines) and not tx.lines[k].strip():
                k += 1
                r1 = min(len(tx.src), tx.ot[k] if k < len(tx.lines) else len(tx.src))
    return r0, r1


def judge(ctx, tx, after, region, step, case):
    from ..base import short
    before = tx.src
    r0, r1 = region
    r0 = max(0, min(r0, len(before)))
    r1 = max(r0, min(r1, len(before)))
    ctx.count('edits_judged')
    ctx.evaluations += 1
    lead, trail = parse_trivia(step['opts'].get('trivia') if not isinstance(step['opts'].get('trivia'), list) else tuple(step['opts'].get('trivia')))
    cellk = (step['op'], step['ttype'], step['field'], f'{lead}/{trail}')
    outside_comments = [c for c in tx.comments if not (r0 <= tx.tok_off(c)[0] < r1)]
    ctx.count('comments_outside_region_checked', len(outside_comments))
    if after.startswith(before[:r0]) and after.endswith(before[r1:]) and len(after) >= r0 + len(before) - r1:
        ctx.count('level1_exact_splice')
        ctx.cell(*cellk, 'L1')
        return True
    # level 2: token-level splice. D = tokens of the before-text that were deleted or replaced, found inside the window left by
    # the longest common token prefix and suffix; each must be explained by the element, its separators/brackets, the trivia the
    # option selects, or a dependent clause; lines wholly inside the common prefix/suffix must be byte-identical.
    try:
        atoks = [t for t in tokenize.generate_tokens(io.StringIO(after).readline) if t.type not in (tokenize.NL, tokenize.NEWLINE, tokenize.INDENT, tokenize.DEDENT, tokenize.ENDMARKER) and t.string != '']
    except Exception:
        ctx.count('after_not_tokenizable(skipped)')
        return True
    btoks = [t for t in tx.toks if t.type not in (tokenize.NL, tokenize.NEWLINE, tokenize.INDENT, tokenize.DEDENT, tokenize.ENDMARKER) and t.string != '']
    import re as _re
    key = lambda t: t.string.rstrip() if t.type == tokenize.COMMENT else (_re.sub(r'\n[ \t]*', '\n', t.string) if t.type in (tokenize.STRING, tokenize.FSTRING_MIDDLE) and '\n' in t.string else t.string)
    bs, as_ = [key(t) for t in btoks], [key(t) for t in atoks]
    P = 0
    while P < len(bs) and P < len(as_) and bs[P] == as_[P]:
        P += 1
    S = 0
    while S < len(bs) - P and S < len(as_) - P and bs[len(bs) - 1 - S] == as_[len(as_) - 1 - S]:
        S += 1
    wb = list(range(P, len(bs) - S))
    import collections
    lost = collections.Counter(bs[i] for i in wb) - collections.Counter(as_[P:len(as_) - S])
    ext = step.get('_extent') or (r0, r1)
    e0, e1 = ext
    sel = step.get('_trivia_selected') or set()
    dep = step.get('_dependent') or set()
    elif_case = step['field'] == 'orelse' and step['ptype'] == 'If'
    allowed_punct = SEP_TOKENS | {'(', ')', '[', ']', '{', '}', '\\', 'pass', '*', '**', 'lambda', 'def', 'class', 'try', 'finally', 'while', 'yield', 'await', 'type', 'match', 'raise', 'assert', 'None'}
    # which instances are blamed: for every lost string the best-explained instances inside the window are assumed to be the lost ones
    code_idx = [i for i, t in enumerate(btoks) if t.type != tokenize.COMMENT]
    pos_in_code = {i: k for k, i in enumerate(code_idx)}
    ext_code = [pos_in_code[i] for i, t in enumerate(btoks) if t.type != tokenize.COMMENT and e0 <= tx.tok_off(t)[0] < e1]
    if ext_code:
        lo, hi = min(ext_code), max(ext_code)
    else:
        before_pt = [pos_in_code[i] for i, t in enumerate(btoks) if t.type != tokenize.COMMENT and tx.tok_off(t)[1] <= e0]
        lo = hi = (max(before_pt) if before_pt else 0)
    is_insert = step['op'] in ('insert', 'view_insert', 'append', 'view_append', 'extend', 'prepend', 'prextend') or e0 == e1
    p0, p1 = step.get('_extent_pars') or (e0, e1)
    fl_ll = step.get('_lines')
    block_stmt = step['kind'] in ('stmt', 'handler', 'case') and (step.get('_last_type') or step['ttype']) in ('FunctionDef', 'AsyncFunctionDef', 'ClassDef', 'If', 'For', 'AsyncFor', 'While', 'With', 'AsyncWith', 'Try', 'TryStar', 'Match', 'ExceptHandler', 'match_case')

    ext_strings = {bs[i] for i, t in enumerate(btoks) if min(e0, p0) <= tx.tok_off(t)[0] < max(e1, p1)}   # incl. the element's own parentheses: an identical twin next to it makes the token alignment ambiguous

    def score(i):
        """0 = explained ... 9 = unexplained"""
        t = btoks[i]
        o = tx.tok_off(t)[0]
        if e0 <= o < e1:
            return 0
        if bs[i] in ext_strings and t.type != tokenize.COMMENT:
            return 2      # same text occurs inside the element: which of two identical tokens "was" deleted is an alignment ambiguity
        if t.type == tokenize.COMMENT:
            sl_ = step.get('_stmt_lines')
            if sl_ and step['kind'] not in ('stmt', 'handler', 'case') and not (sl_[0] <= t.start[0] <= sl_[1]):
                return 9      # outside the statement that contains the expression-level element: no trivia option of that element can select it
            if (t.start[0], key(t)) in sel:
                return 1
            if p0 <= o < p1:
                return 1      # inside the element's own parentheses
            if block_stmt and fl_ll and t.start[0] == fl_ll[1]:
                return 1      # comment on the last line of a block statement belongs to its last child (documented)
            if is_insert and r0 <= o < r1:
                return 2      # comment directly at the insertion point: leading trivia of the slot (overwritten per the trivia option)
            if elif_case or step.get('_block_emptied'):
                return 3
            return 9
        if (t.start[0], bs[i]) in dep or bs[i] in dep:
            return 1
        if elif_case and bs[i] in ('elif', 'else', 'if', ':'):
            return 1
        if bs[i] in allowed_punct:
            k = pos_in_code[i]
            d = 0 if lo <= k <= hi else min(abs(k - lo), abs(k - hi))
            return 2 if d <= 4 else 9
        return 9
    for sname, cnt in lost.items():
        cands = sorted((score(i), i) for i in wb if bs[i] == sname)
        for sc, i in cands[:cnt]:
            if sc < 9:
                if sc == 2 and btoks[i].type == tokenize.COMMENT:
                    ctx.count('comment_at_insertion_point_overwritten(slot trivia)')
                if sc == 3:
                    ctx.count('comment_in_restructured_block(not judged)')
                continue
            t = btoks[i]
            own_line_comment = t.type == tokenize.COMMENT and not tx.lines[t.start[0] - 1][:t.start[1]].strip()
            sl = step.get('_stmt_lines')
            if t.type == tokenize.COMMENT and step['kind'] not in ('stmt', 'handler', 'case') and sl and not (sl[0] <= t.start[0] <= sl[1]):
                ctx.violation(f'comment-outside-enclosing-statement-lost:{step["op"]}:{step["field"]}',
                              f'{step["op"]} on {step["ptype"]}.{step["field"]} ({step["ttype"]}) opts={step["opts"]}: comment {t.string!r} on line {t.start[0]} lies outside the statement (lines {sl[0]}-{sl[1]}) that contains the edited expression-level element, yet it is gone; '
                              f'before={short(before, 300)!r} after={short(after, 300)!r}', case)
            elif own_line_comment and step['kind'] not in ('stmt', 'handler', 'case') and t.start[0] > (fl_ll[1] if fl_ll else 0):
                ctx.violation('exprlike-edit-deletes-own-line-comment-above-next-element',
                              f'{step["op"]} on {step["ptype"]}.{step["field"]} opts={step["opts"]}: the own-line comment {t.string!r} (line {t.start[0]}) above the element FOLLOWING the edited position was deleted; '
                              f'before={short(before, 300)!r} after={short(after, 300)!r}', case)
            elif t.type == tokenize.COMMENT and step['ptype'] == 'BoolOp' and step['field'] == 'values':
                ctx.violation('boolop-operand-edit-drops-comment-next-to-removed-operator', f'{step["op"]} on BoolOp.values opts={step["opts"]}: comment {t.string!r} (line {t.start[0]}) between an operand and the operator removed with it is gone although the trivia option does not select it; before={short(before, 260)!r} after={short(after, 260)!r}', case)
            elif t.type == tokenize.COMMENT and step['kind'] not in ('stmt', 'handler', 'case'):
                ctx.violation('exprlike-edit-loses-comment-not-selected-by-trivia', f'{step["op"]} on {step["ptype"]}.{step["field"]} ({step["ttype"]}) opts={step["opts"]}: comment {t.string!r} (line {t.start[0]}) outside the element and not selected by the trivia option is gone; before={short(before, 260)!r} after={short(after, 260)!r}', case)
            elif t.type == tokenize.COMMENT:
                ctx.violation(f'comment-outside-edited-element-lost:{step["op"]}:{step["kind"]}',
                              f'{step["op"]} on {step["ptype"]}.{step["field"]} ({step["ttype"]}) opts={step["opts"]}: comment {t.string!r} (line {t.start[0]}) is neither inside the element {short(before[e0:e1], 80)!r} nor selected by '
                              f'the trivia option, yet it is gone afterwards; before={short(before, 300)!r} after={short(after, 300)!r}', case)
            else:
                ctx.violation(f'token-outside-edited-element-changed:{step["op"]}:{step["kind"]}',
                              f'{step["op"]} on {step["ptype"]}.{step["field"]} ({step["ttype"]}) opts={step["opts"]}: token {t.string!r} (line {t.start[0]}) lies outside the element {short(before[e0:e1], 80)!r} and is not an adjoining '
                              f'separator/bracket, yet it was deleted or replaced; before={short(before, 300)!r} after={short(after, 300)!r}', case)
            return False
    # untouched lines: all tokens of the line in the common prefix (or suffix) => the line text must be identical at the corresponding place
    if not elif_case and not step.get('_reindents'):
        blines, alines = before.split('\n'), after.split('\n')
        by_line = {}
        for i, t in enumerate(btoks):
            by_line.setdefault(t.start[0], []).append(i)
        for ln, idxs in by_line.items():
            if btoks[idxs[0]].start[0] != btoks[idxs[-1]].end[0]:
                continue
            if idxs[-1] < P:
                aln = atoks[idxs[0]].start[0]
            elif idxs[0] >= len(bs) - S:
                aln = atoks[len(as_) - (len(bs) - idxs[0])].start[0]
            else:
                continue
            if e0 <= tx.ot[ln - 1] < e1 or (tx.ot[ln - 1] <= e0 < tx.ot[ln]) or (tx.ot[ln - 1] < e1 <= tx.ot[ln]):
                continue
            a_line_toks = [key(t) for t in atoks if t.start[0] == aln]
            if a_line_toks != [bs[i] for i in idxs]:
                continue   # tokens were inserted on / moved to that line: not a pure whitespace change
            strip_cont = lambda l: l.rstrip()[:-1].rstrip() if l.rstrip().endswith('\\') else l.rstrip()
            rl0, rl1 = before.count('\n', 0, r0) + 1, before.count('\n', 0, r1) + 1
            if alines[aln - 1] != blines[ln - 1] and strip_cont(alines[aln - 1]) == strip_cont(blines[ln - 1]):
                continue   # only the line-continuation / trailing blanks directly adjoining the edited region changed
            if alines[aln - 1] != blines[ln - 1] and blines[ln - 1] in alines[max(0, aln - 40):aln + 40]:
                ctx.count('line_alignment_ambiguous(identical text inserted nearby)')
                continue
            if alines[aln - 1] != blines[ln - 1] and ln >= 2 and blines[ln - 2].rstrip().endswith('\\') and alines[aln - 1].lstrip() == blines[ln - 1].lstrip() \
                    and step['kind'] in ('stmt', 'handler', 'case'):
                # a continuation line of a ';'-joined logical line: when a statement edit splits that logical line, the rest starts a line of its
                # own and must take the block's indentation (continuation lines may be indented arbitrarily, statement lines may not)
                ctx.count('continuation_line_reindented_after_logical_line_split(required by the grammar)')
                continue
            if alines[aln - 1] != blines[ln - 1]:
                if r0 <= tx.ot[ln - 1] < r1 or r0 < tx.ot[ln] <= r1:
                    continue   # partly inside the allowed region (separator / trailing whitespace next to the element)
                ctx.violation(f'untouched-line-not-byte-identical:{step["op"]}:{step["kind"]}',
                              f'{step["op"]} on {step["ptype"]}.{step["field"]} ({step["ttype"]}) opts={step["opts"]}: line {ln} {blines[ln - 1]!r} has no changed token and lies outside the element, but reads {alines[aln - 1]!r} afterwards', case)
                return False
    ctx.count('level2_token_splice')
    ctx.cell(*cellk, 'L2')
    return True


OPS = ['replace', 'put', 'assign', 'put_slice_one', 'remove', 'delitem', 'put_none', 'cut', 'get_cut', 'insert', 'append', 'prepend', 'put_slice', 'setslice', 'put_slice_none', 'view_remove', 'get_slice_cut',
       'view_insert', 'view_append', 'extend', 'prextend']


def one_step(ctx, FST, root, step, tv, rnd, first=None, workload='seq'):
    """Apply one generated step with the trivia option `tv` and judge it. Returns False when the sequence must stop."""
    from .. import edits
    from ..base import refparse, insync
    before = root.src
    ref, _ = refparse(before)
    if ref is None:
        return False
    step['opts'] = {'norm': True}
    if tv is not None:
        step['opts']['trivia'] = tv
    if rnd.random() < 0.3:
        step['opts']['pep8space'] = rnd.choice([False, 1])
    if rnd.random() < 0.15:
        step['opts']['elif_'] = False
    if rnd.random() < 0.15:
        step['opts']['docstr'] = rnd.choice([False, 'strict'])
    tx = Text(before)
    if tx.toks is None:
        return False
    try:
        region = region_for(tx, ref, step, root)
        if region is not None and '_extent' not in step:
            step['_extent'] = (region[0], region[0])
    except Exception as e:
        ctx.count('region_not_computable:' + type(e).__name__)
        region = None
    try:
        edits.apply_step(root, step, FST)
    except Exception:
        ctx.count('step_raised')
        return root.src == before
    if region is None:
        ctx.count('region_not_computable')
        return True
    if root.src == before:
        ctx.count('no_text_change')
        return True
    case = {'workload': workload, 'src': before, 'steps': [{k: v for k, v in step.items() if not k.startswith('_')}]}
    if first is not None and len(first) < 2:
        first.append({k: step[k] for k in ('op', 'ptype', 'field', 'ttype', 'opts')})
    if not judge(ctx, tx, root.src, region, step, case):
        return False
    ok, _ = insync(root)
    return ok is not False


BOUNDARY_PROGRAMS = [
    'import functools\n# cached because the lookup is slow, see ticket 1234\n@functools.cache\n@traced\ndef lookup(key):\n    return table[key]\n',
    'class K:\n    x = 1\n    # public API, do not rename\n    @staticmethod\n    # about make\n    @other\n    def make():\n        return K()\n',
    'TEMPLATES = [\n    """\n    # generated file, do not edit""",\n    second,\n    third,\n]\n',
    'call(first,  # about first\n     """text\n# still text""", third,  # about third\n     fourth)\n',
    'def first():\n    return 1\n# explains second(), not first()\ndef second():\n    return 2\n\n# explains third\n\ndef third(): pass\n',
    'a = 1  # trailing a\nb = 2  # trailing b\n# own line before c\nc = 3\n\n# after blank\nd = 4\n',
    'if x:  # on if\n    a  # on a\n    # before b\n    b\nelif y:  # on elif\n    c\nelse:  # on else\n    # before d\n    d  # on d\n# after if\ne\n',
    'x = [\n    a,  # ca\n    # before b\n    b,\n    c,  # cc\n]  # after list\ny = (p,  # cp\n     q)  # cq\n',
    'r = (a or  # ca\n     b or  # cb\n     # before c\n     c)\ns = a < b < c  # cmp\n',
    'try:  # t\n    a\nexcept E:  # e\n    b  # cb\n# before else\nelse:  # el\n    c\nfinally:  # f\n    d  # cd\n',
    'with a as b, c as d:  # w\n    x; y  # xy\n    z  # cz\nimport m, n  # imp\nfrom p import (q,  # cq\n               r)  # cr\n',
    'd = {\n    k1: v1,  # c1\n    # before k2\n    **rest,\n    k2: v2,\n}\ndel a, b  # del\nglobal g1, g2  # glb\n',
    'match v:  # m\n    case 1:  # c1\n        a\n    # before case 2\n    case [x, y]:  # c2\n        b  # cb\n',
    'def f(a,  # ca\n      b=1,  # cb\n      *c,  # cc\n      d):  # cd\n    """doc"""  # after doc\n    # before pass\n    pass\n',
    'for i in j:  # fr\n    k  # ck\nelse:  # fe\n    l\nwhile m:  # wh\n    n; o  # no\n',
    'x = f(a)(b,  # cb\n         c)  # cc\ny = z[i,  # ci\n      j]  # cj\nclass C(B1,  # b1\n        B2):  # b2\n    pass\n',
    'v = [i  # ci\n     for i in j  # cj\n     if k  # ck\n     if l]  # cl\n@d1  # cd1\n@d2  # cd2\nclass K: pass\n',
    'a = b = c  # abc\nx: int = 1  # ann\ny += 2; z -= 3  # aug\nassert p, q  # asr\nraise E from c  # rs\n',
]
TABLE_OPS = ['remove', 'cut', 'replace', 'delitem', 'put_none', 'put_slice_none', 'view_remove', 'get_slice_cut', 'put_slice_one', 'insert', 'append', 'prepend']
TABLE_TRIVIA = [None, False, 'all', 'block', (), ('all', 'line'), ('block', 'all')]


def run_table(ctx, FST):
    """Deterministic part: every target of every BOUNDARY program x every table operation x every trivia option (complete in both tiers)."""
    import random
    from .. import edits
    i = 0
    for pi, src in enumerate(BOUNDARY_PROGRAMS):
        try:
            n = len(edits.candidates(FST(src, 'exec').a))
        except Exception:
            continue
        for ci in range(n):
            for op in TABLE_OPS:
                for ti, tv in enumerate(TABLE_TRIVIA):
                    i += 1
                    if not ctx.mine(i):
                        continue
                    if ctx.out_of_time():
                        return
                    rnd = random.Random(i)
                    root = FST(src, 'exec')
                    step = edits.gen_step(rnd, root, {}, None, norm=True, ops=OPS, cand=ci, op=op)
                    if step is None:
                        continue
                    ctx.count('table_steps')
                    one_step(ctx, FST, root, step, tv, rnd, None, 'table')


def run_sequence(ctx, FST, rnd):
    from .. import corpus, edits
    from ..base import refparse, short, insync
    for _ in range(30):
        r = rnd.random()
        if r < 0.2:
            fn, src = 'GRAMMAR', rnd.choice(corpus.GRAMMAR_PROGRAMS)
        else:
            fn, src = corpus.window(rnd, max_len=2200)
        src, applied = corpus.relayout(src, rnd, kinds=['comments', 'comment_lines', 'comments', 'semicolons', 'tabs', 'unicode', 'parens'] + (['continuation'] if rnd.random() < 0.25 else []), n=3)
        if src.count('#') >= 2:
            break
    try:
        root = FST(src, 'exec')
        donors = edits.donor_codes(FST(corpus.window(rnd, max_len=1200)[1], 'exec'), None, rnd)
    except Exception:
        return
    ctx.count('sequences')
    first = []
    for i in range(10):
        if ctx.out_of_time():
            return
        step = edits.gen_step(rnd, root, donors, None, norm=True, ops=OPS)
        if step is None:
            return
        tv = rnd.choice(TRIVIA_CHOICES)
        if not one_step(ctx, FST, root, step, tv, rnd, first):
            return
    if first and len(ctx.samples) < 5:
        ctx.sample({'file': fn, 'layout': applied, 'src': short(src, 160), 'steps': first})


def run(ctx):
    from fst import FST
    run_table(ctx, FST)
    while not ctx.out_of_time():
        run_sequence(ctx, FST, ctx.rnd)


def replay(ctx, case):
    from fst import FST
    from .. import edits
    from ..base import refparse
    root = FST(case['src'], 'exec')
    for step in case['steps']:
        before = root.src
        tx = Text(before)
        ref, _ = refparse(before)
        region = region_for(tx, ref, step, root)
        edits.apply_step(root, step, FST)
        print('region:', repr(before[region[0]:region[1]]))
        print('after :', repr(root.src[:600]))
        judge(ctx, tx, root.src, region, step, case)
