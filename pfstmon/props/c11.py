"""C11 - whitespace-only source edits in offset mode keep every node on its text."""

import ast
import io
import tokenize

META = {
    'level': 'exploration',
    'rule': ('per program (REAL windows, LAYOUT variants incl. multi-byte, GRAMMAR programs, zero-width-node cases): tokenize; for EVERY gap between adjacent tokens on a '
             'logical line: insert a space at gap start, replace the gap by two spaces, by " \\\\\\n ", by "" when non-empty, by " # c\\n " / a multi-byte comment when inside '
             'brackets, plus inserts at the very start/end of nodes. An edit is in scope iff ast.parse(new) has the same structure as before. The target node is the innermost '
             'node whose reference extent (own ast positions, or the span of its children for position-less nodes) strictly contains the spot, found by brute force over '
             'ast positions. Oracle after node.put_src(text, ..., "offset"): root.src == the splice and dump(include_attributes) == dump(ast.parse(new)). '
             'A cell is (target node class, edit kind, single/multi-line, multibyte-before-spot). Coordinates are sometimes passed in the documented alias spellings (negative / \'end\' / clipped).'),
    'budget': {'quick': 40, 'thorough': 600},
    'floors': {'quick': {'offset_edits_checked': 20000, 'programs': 150}, 'thorough': {'offset_edits_checked': 250000, 'programs': 600}},
    'exhaustive': {'quick': False, 'thorough': False},
    'assumptions': ['in-scope = the edit is pure trivia according to CPython (structure unchanged)', 'gaps inside f-string middles are excluded'],
    'technique': 'runtime monitoring: enumeration of token gaps with a full-reparse reference after every offset-mode edit',
}

ZERO_WIDTH = ['def f(): pass\n', 'x = f()\n', 'y = ()\n', 'z = []\n', 'lambda: 0\n', 'class C(): pass\n', 'w = {}\n', 'def g( ): return ( )\n', 'a = f( )[ : ]\n', 'é = f(  )  # ü\n',
              'if a:\n    pass\nelse:\n    pass\n', 'with a, b: pass\n', 'x = [i for i in j if k]\n', 'match v:\n    case C(): pass\n    case []: pass\n', 'try: pass\nexcept: pass\n',
              'def h(a, /, b, *, c): pass\n', 'f"{a} {b!r:>{w}}"\n', 'x = a if b else c\n', 'import a.b as c, d\n', 'from . import (x as y, z)\n', 'global g, h\n', '@d\nclass K[T]: pass\n']


def has_debug_fstring(tree):
    """f'{x=}' : CPython gives the synthesized 'x=' Constant anomalous positions"""
    for n in ast.walk(tree):
        if isinstance(n, ast.JoinedStr):
            for a, b in zip(n.values, n.values[1:]):
                if isinstance(a, ast.Constant) and isinstance(a.value, str) and a.value.rstrip().endswith('=') and isinstance(b, ast.FormattedValue):
                    return True
    return False


def extents(tree, lines):
    """[(node, path, (ln, col, end_ln, end_col))] with 0-based lines and CHARACTER columns; position-less nodes get the span of their descendants"""
    out = []

    def b2c(ln, b):
        return len(lines[ln].encode()[:b].decode())

    def rec(node, path):
        kids = []
        for field, val in ast.iter_fields(node):
            if isinstance(val, ast.AST):
                kids.append(rec(val, path + [(field, None)]))
            elif isinstance(val, list):
                for i, v in enumerate(val):
                    if isinstance(v, ast.AST):
                        kids.append(rec(v, path + [(field, i)]))
        kids = [k for k in kids if k]
        if hasattr(node, 'lineno') and node.lineno is not None:
            ext = (node.lineno - 1, b2c(node.lineno - 1, node.col_offset), node.end_lineno - 1, b2c(node.end_lineno - 1, node.end_col_offset))
        elif kids and not isinstance(node, ast.Module):
            ext = (min(k[0:2] for k in kids) + max(k[2:4] for k in kids))
        elif isinstance(node, ast.Module):
            ext = (0, 0, len(lines) - 1, len(lines[-1]))
            out.append((node, path, (-1, 0, len(lines), 0)))
            return ext
        else:
            return None
        out.append((node, path, ext))
        return ext
    rec(tree, [])
    return out


def innermost(exts, ln, a, b):
    best = None
    for node, path, (l0, c0, l1, c1) in exts:
        if (l0, c0) < (ln, a) and (ln, b) < (l1, c1):
            if best is None or ((l0, c0) >= best[2][0:2] and (l1, c1) <= best[2][2:4]):
                best = (node, path, (l0, c0, l1, c1))
    return best


def resolve(tree, path):
    n = tree
    for field, idx in path:
        n = getattr(n, field)
        if idx is not None:
            n = n[idx]
    return n


def check_program(ctx, FST, seg, label, rnd, max_edits, allow_debug=False):
    from ..base import D, S, refparse, short
    base, _ = refparse(seg)
    if base is None:
        return
    import re as _re
    if not allow_debug and (has_debug_fstring(base) or (_re.search(r'=\s*(![rsa])?(:[^{}]*)?\}', seg) and _re.search(r'''[fF][rR]?['"]|[rR][fF]['"]''', seg))):
        ctx.count('program_with_debug_fstring_skipped(CPython positions anomalous)')
        return
    try:
        toks = list(tokenize.generate_tokens(io.StringIO(seg).readline))
    except Exception:
        return
    base_s = S(base)
    lines = seg.split('\n')
    exts = extents(base, lines)
    ctx.count('programs')
    depth = 0
    gaps = []
    for t1, t2 in zip(toks, toks[1:]):
        if t1.type == tokenize.OP and t1.string in '([{':
            depth += 1
        if t1.type == tokenize.OP and t1.string in ')]}':
            depth -= 1
        if t1.type in (tokenize.NEWLINE, tokenize.NL, tokenize.INDENT, tokenize.DEDENT, tokenize.COMMENT, tokenize.ENCODING):
            continue
        if t2.type in (tokenize.NEWLINE, tokenize.NL, tokenize.INDENT, tokenize.DEDENT, tokenize.ENDMARKER):
            continue
        if t1.type in (tokenize.FSTRING_START, tokenize.FSTRING_MIDDLE) or t2.type in (tokenize.FSTRING_MIDDLE, tokenize.FSTRING_END):
            continue
        if t1.end[0] != t2.start[0]:
            continue
        gaps.append((t1.end[0] - 1, t1.end[1], t2.start[1], depth))
    if len(gaps) * 6 > max_edits:
        gaps = rnd.sample(gaps, max(1, max_edits // 6))
    done = 0
    for ln, c1, c2, depth in gaps:
        edits = [('ins-space', ' ', c1, c1), ('two-spaces', '  ', c1, c2), ('continuation', ' \\\n ', c1, c2), ('ins-space-end', ' ', c2, c2)]
        if c2 > c1:
            edits.append(('delete', '', c1, c2))
            edits.append(('delete-one', '', c1, c1 + 1))
        if depth > 0:
            edits.append(('comment', ' # c\n ', c1, c2))
            edits.append(('mb-comment', '  # é日本\n\t', c1, c2))
            edits.append(('newline', '\n', c1, c2))
        for name, text, a, b in edits:
            if ctx.out_of_time():
                return
            l = lines[ln]
            new = '\n'.join(lines[:ln] + (l[:a] + text + l[b:]).split('\n') + lines[ln + 1:])
            ref, _ = refparse(new)
            if ref is None or S(ref) != base_s:
                ctx.count('edit_not_trivia_per_cpython(skipped)')
                continue
            hit = innermost(exts, ln, a, b)
            if hit is None:
                ctx.count('no_strictly_containing_node')
                continue
            root = FST(seg, 'exec')
            node = resolve(root.a, hit[1]).f
            case = {'src': seg, 'ln': ln, 'a': a, 'b': b, 'text': text, 'path': hit[1], 'label': label}
            from ..base import alias_coords
            spelled = alias_coords(rnd, lines, ln, a, ln, b, 0.15)
            case['spelled'] = list(spelled)
            try:
                node.put_src(text, *spelled, 'offset')
            except Exception as e:
                ctx.violation(f'offset-put-raised:{type(e).__name__}', f'{type(hit[0]).__name__}.put_src({text!r}, {ln}, {a}, {ln}, {b}, "offset") raised {type(e).__name__}: {e} on {short(seg, 200)!r}', case)
                continue
            ctx.count('offset_edits_checked')
            ctx.evaluations += 1
            done += 1
            mb = len(l[:a]) != len(l[:a].encode())
            ctx.cell(type(hit[0]).__name__, name, 'mb' if mb else 'ascii')
            if root.src != new:
                ctx.violation('offset-put-source-not-the-splice', f'{type(hit[0]).__name__}.put_src({text!r}, ..., "offset") at ({ln},{a}..{b}): source differs from the requested splice', case)
                continue
            if D(root.a) != D(ref):
                # which motion clause failed
                clause = 'unknown'
                for x, y in zip(ast.walk(root.a), ast.walk(ref)):
                    for at in ('lineno', 'col_offset', 'end_lineno', 'end_col_offset'):
                        if getattr(x, at, None) != getattr(y, at, None):
                            clause = f'{type(x).__name__}.{at} live={getattr(x, at, None)} ref={getattr(y, at, None)}'
                            break
                    if clause != 'unknown':
                        break
                ctx.violation(f'offset-put-positions-differ:{name}', f'{type(hit[0]).__name__}.put_src({text!r}, {ln}, {a}, {ln}, {b}, "offset") on line {lines[ln]!r}: first differing position {clause}', case)
    if len(ctx.samples) < 4 and done:
        ctx.sample({'program': label, 'src': short(seg, 120), 'gaps': len(gaps), 'edits_checked': done})


def run(ctx):
    from fst import FST
    from .. import corpus
    progs = [(f'ZERO[{i}]', s) for i, s in enumerate(ZERO_WIDTH)] + [(f'GRAMMAR[{i}]', s) for i, s in enumerate(corpus.GRAMMAR_PROGRAMS)]
    for i, (label, src) in enumerate(progs):
        if ctx.mine(i) and not ctx.out_of_time():
            check_program(ctx, FST, src, label, ctx.rnd, 10 ** 9)
    cap = 240 if ctx.tier == 'quick' else 10 ** 9
    while not ctx.out_of_time():
        fn, src = corpus.window(ctx.rnd, max_len=1500 if ctx.tier == 'quick' else 4000)
        if ctx.rnd.random() < 0.5:
            s2 = corpus.mut_unicode(src, ctx.rnd)
            if s2:
                src = s2
            src, _ = corpus.relayout(src, ctx.rnd, kinds=['comments', 'parens', 'continuation', 'tabs', 'semicolons'], n=2)
        check_program(ctx, FST, src, fn, ctx.rnd, cap)


def replay(ctx, case):
    from fst import FST
    from ..base import D, refparse
    seg = case['src']
    lines = seg.split('\n')
    ln, a, b, text = case['ln'], case['a'], case['b'], case['text']
    l = lines[ln]
    new = '\n'.join(lines[:ln] + (l[:a] + text + l[b:]).split('\n') + lines[ln + 1:])
    root = FST(seg, 'exec')
    node = resolve(root.a, [tuple(p) for p in case['path']]).f
    node.put_src(text, ln, a, ln, b, 'offset')
    ref, _ = refparse(new)
    ok = root.src == new and D(root.a) == D(ref)
    print('node', node, 'ok', ok)
    if not ok:
        ctx.violation('replayed', 'offset edit differs from full parse', case)
