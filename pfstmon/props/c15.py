"""C15 - walking stays sound while the tree is being modified (systematic schedule enumeration, stateless re-execution)."""

import ast
import itertools

META = {
    'level': 'exploration',
    'rule': ('schedules = (small program, walk parameters on x back x recurse x all, list of (yield index, action)); each schedule is re-executed from a fresh parse. Actions: none / '
             'send(False) / send(True) / {replace, remove, replace-by-slice (arity change)} x {current node, each ancestor below root, previous sibling, next sibling, first child}. '
             'quick: ALL schedules with one mutating action at every yield index for every program and parameter set, plus a seeded sample of two-action schedules and random '
             'deeper schedules on REAL windows; thorough: all two-action schedules too. The same for search() and sub() callbacks. Oracle per schedule: no exception escapes '
             'the generator (a refused edit is caught by the consumer and recorded); every yielded node is alive, belongs to the root and is reachable from root.a; no node is '
             'entered twice (strong references kept); after replacing the current node (single element) its new children come next unless send(False); after removing it the '
             'walk continues with the node that followed; send(False)/send(True) honoured; termination within 4*(nodes+inserted)+16 yields; final tree satisfies the C01 oracle. '
             'A cell is (action, relative position, on, back, all). Additional action replace+send(True) on the current node: after an undisturbed re-walk every new descendant must have been yielded before the node comes back (on=\'leave\'/\'both\'), or next (on=\'enter\'). Programs include list fields that start with None (Dict with leading **, kw_defaults).'),
    'budget': {'quick': 45, 'thorough': 900},
    'floors': {'quick': {'schedules_executed': 15000, 'mutating_actions_applied': 8000, '#cells': 150}, 'thorough': {'schedules_executed': 250000, 'mutating_actions_applied': 110000, '#cells': 200}},
    'shares_c01_oracle': True,
    'assumptions': ['"never loops forever" is decided as a step bound', 'scope walks are exercised with on="enter" only (documented restriction)'],
    'technique': 'runtime monitoring: systematic enumeration of walk/mutation interleavings, each a real execution with invariants checked at every yield',
}

PROGS = [
    '[a, [b, [c, d], e], f]',
    'f(a, g(b, c), d)',
    'x = [a, (b, c)]\ny = {d: e}\nif z:\n    w = v\n    u(t)\nelse:\n    s = r',
    'def f(a, b):\n    return a + b * (c - d)\nclass C:\n    x = 1\n    y = [i for i in j]',
    'for i in j:\n    if i:\n        k(i)\n    else:\n        pass\n    l = m',
    'match v:\n    case [a, b]:\n        c = d\n    case _:\n        pass',
    'try:\n    a = b\nexcept E as e:\n    c(e)\nfinally:\n    d',
    'x = a if b else c\ny = lambda p: p + q\nz = not (r and s)',
    'with a as b, c:\n    d = [e for e in f if e]\n    g(h, k=l)',
    'a = 1; b = 2; c = 3',
    'if a:\n    b\nelif c:\n    d\nelse:\n    e',
    'print(a, *b, c=d)\ndel e, f\nassert g, h',
    '[x, {**a, b: c}, y]\nz = {**p, **q, r: s}',
    'def f(*, a, b=1): pass\nq\ng = lambda *, k, m=2: k',
]
PARAMS = [(on, back, recurse, all_) for on in ('enter', 'leave', 'both') for back in (False, True) for recurse in (True, False) for all_ in (False, True, 'Name')]
REL = ['cur', 'anc0', 'anc1', 'prev', 'next', 'child']
ACTS = ['replace', 'remove', 'replace_slice', 'sendF', 'sendT', 'replace_sendT']


def relative(g, rel):
    if rel == 'cur':
        return g
    if rel.startswith('anc'):
        k = int(rel[3:])
        p = g.parent
        while p is not None and k:
            p = p.parent
            k -= 1
        return p if p is not None and p.parent is not None else None
    if rel == 'prev':
        return g.prev() if g.parent else None
    if rel == 'next':
        return g.next() if g.parent else None
    if rel == 'child':
        return g.first_child()
    return None


def code_for(t, which):
    a = t.a
    if isinstance(a, ast.stmt):
        return ['new_stmt = 1', 'if n1:\n    n2', 'n3(n4)'][which % 3]
    if isinstance(a, ast.expr):
        ctx = getattr(a, 'ctx', None)
        if isinstance(ctx, (ast.Store, ast.Del)):
            return 'nw'
        if t.parent and isinstance(t.parent.a, (ast.Attribute, ast.keyword)) :
            return 'nw'
        return ['nw', '[n1, n2]', 'n1 + n2', 'n5(n6, n7)'][which % 4]
    if isinstance(a, ast.pattern):
        return ['nw', '[n1, n2]'][which % 2]
    return None


def execute(ctx, FST, src, params, schedule, label):
    """Run one schedule. schedule: dict yield_index -> (act, rel, which). Returns number of mutating actions applied."""
    from ..base import insync, short
    on, back, recurse, all_ = params
    allv = ast.Name if all_ == 'Name' else all_
    root = FST(src, 'exec')
    n0 = sum(1 for _ in ast.walk(root.a))
    inserted = 0
    keep = []
    entered = {}
    log = []
    applied = 0
    sent_true = False
    expect_child_of = None      # (FST node) next yield must be a descendant of it
    expect_exact = None         # (FST node) next yield must be exactly this node (if still alive)
    expect_rewalk = None        # (FST node, ids of new descendants that must be yielded before the node comes back, seen ids)
    case = {'src': src, 'params': [on, back, recurse, all_], 'schedule': {str(k): list(v) for k, v in schedule.items()}, 'label': label}
    gen = root.walk(allv, on, back=back, recurse=recurse)
    steps = 0
    orig_order = None
    try:
        item = next(gen, None)
        while item is not None:
            steps += 1
            bound = 4 * (n0 + inserted) + 16
            if steps > bound:
                ctx.violation('walk-does-not-terminate-within-bound', f'{label} {params}: more than {bound} yields after schedule {log}', case)
                return applied
            g, leaving = (item if on == 'both' else (item, on == 'leave'))
            keep.append(g)
            if g.a is None or not g.is_alive:
                ctx.violation('walk-yields-dead-node', f'{label} {params}: yielded a node that is no longer part of a tree after {log}', case)
                return applied
            if g.root is not root:
                ctx.violation('walk-yields-node-of-other-root', f'{label} {params}: yielded node whose root is not the walked root after {log}', case)
                return applied
            if not any(x is g.a for x in ast.walk(root.a)):
                ctx.violation('walk-yields-unreachable-node', f'{label} {params}: yielded {g!r} not reachable from root.a after {log}', case)
                return applied
            if not leaving:
                if id(g) in entered and not sent_true:
                    if entered[id(g)][1] is not g.a:   # same FST object, ANOTHER AST node: the object was reused for the operand that replaced its collapsed parent
                        ctx.violation('norm-collapse-reuses-parent-fst-object-which-is-entered-again', f'{label} {params}: the FST object first entered as {entered[id(g)][0]} was entered again as {g!r} after {log} (normalisation replaced the parent by its single remaining operand, reusing the parent\'s FST object)', case)
                    else:
                        ctx.violation('walk-enters-node-twice', f'{label} {params}: {g!r} entered twice after {log}', case)
                    return applied
                entered[id(g)] = (type(g.a).__name__, g.a)   # strong reference to the AST node: identity, not id()
            if expect_child_of is not None:
                p = g
                ok = False
                while p is not None:
                    if p is expect_child_of:
                        ok = True
                        break
                    p = p.parent
                if not ok and expect_child_of.a is not None and any(True for _ in expect_child_of.walk(allv, self_=False)):
                    ctx.violation('replaced-node-children-not-walked-next', f'{label} {params}: after replacing the current node, next yield {g!r} is not inside the replacement; log {log}', case)
                    return applied
                expect_child_of = None
            if expect_exact is not None:
                if expect_exact.a is not None and expect_exact.is_alive and g is not expect_exact:
                    ctx.violation('walk-does-not-continue-with-following-node', f'{label} {params}: after removing the current node expected {expect_exact!r} next, got {g!r}; log {log}', case)
                    return applied
                expect_exact = None
            if expect_rewalk is not None:
                tgt, want_ids, seen_ids = expect_rewalk
                if g is tgt and on == 'both' and not leaving:
                    pass   # documented for on='both': after send(True) on leaving the node is yielded again as entered, then its children, then on leaving
                elif g is tgt:
                    if not want_ids <= seen_ids:
                        ctx.violation('send-true-after-replace-does-not-walk-new-children', f'{label} {params}: the current node was replaced by a node with children and send(True) was sent; the node came back after only {len(want_ids & seen_ids)} of its {len(want_ids)} new descendants were yielded; log {log}', case)
                        return applied
                    expect_rewalk = None
                else:
                    seen_ids.add(id(g.a))
            send = None
            act = schedule.get(steps - 1)
            if act is not None:
                expect_rewalk = None   # a further action while the re-walk is pending: the clause is only judged for an undisturbed re-walk
                a, rel, which = act
                if a == 'replace_sendT':
                    code = {'stmt': 'if n1:\n    n2(n3)', 'expr': 'n5(n6, n7)'}.get('stmt' if isinstance(g.a, ast.stmt) else 'expr' if isinstance(g.a, ast.expr) and isinstance(getattr(g.a, 'ctx', ast.Load()), ast.Load) and g.parent
                                                                                  and not isinstance(g.parent.a, (ast.Attribute, ast.keyword)) else None)
                    if code and g.parent is not None:
                        try:
                            g.replace(code, norm=True)
                            inserted += 12
                            applied += 1
                            send = True
                            sent_true = True
                            log.append(('replace_sendT', code, steps - 1))
                            ctx.cell('replace_sendT', 'cur', on, back, all_)
                            if g.a is not None and all_ in (True, 'Name') and (leaving or on == 'enter'):
                                want_ids = {id(x) for x in ast.walk(g.a) if x is not g.a and (all_ is True or isinstance(x, ast.Name))}
                                expect_rewalk = (g, want_ids, set()) if leaving and len(schedule) == 1 else None   # judged only when nothing else disturbs the walk (documented: other operations may cause new nodes not to be walked)
                                if not leaving:
                                    expect_child_of = g
                        except Exception as e:
                            log.append(('refused', a, type(e).__name__))
                            ctx.count('consumer_edit_refused')
                elif a == 'sendF':
                    send = False
                    log.append(('sendF', steps - 1))
                elif a == 'sendT':
                    send = True
                    sent_true = True
                    log.append(('sendT', steps - 1))
                else:
                    t = relative(g, rel)
                    if t is not None and t.parent is not None:
                        # pre-compute the follower for the "continues with what follows" clause
                        follower = None
                        if a == 'remove' and rel == 'cur' and on == 'enter' and not back and recurse and all_ is True and not leaving and len(schedule) == 1:   # earlier actions (send(False), slice replacements) change what follows: judged in single-action schedules only
                            order = list(root.walk(True))
                            sub = {id(x) for x in g.walk(True)}
                            idx = next((i for i, x in enumerate(order) if x is g), None)
                            if idx is not None:
                                follower = next((x for x in order[idx + 1:] if id(x) not in sub), None)
                        try:
                            if a == 'replace':
                                code = code_for(t, which)
                                if code is not None:
                                    before_nodes = sum(1 for _ in ast.walk(root.a))
                                    t.replace(code, norm=True)
                                    inserted += max(0, sum(1 for _ in ast.walk(root.a)) - before_nodes) + 4
                                    applied += 1
                                    log.append(('replace', rel, code, steps - 1))
                                    ctx.cell('replace', rel, on, back, all_)
                                    if rel == 'cur' and on in ('enter', 'both') and not leaving and recurse:
                                        expect_child_of = g
                            elif a == 'remove':
                                t.remove(norm=True)
                                applied += 1
                                log.append(('remove', rel, steps - 1))
                                ctx.cell('remove', rel, on, back, all_)
                                if follower is not None:
                                    expect_exact = follower
                            elif a == 'replace_slice':
                                pf = t.pfield
                                if pf.idx is not None:
                                    code = {'stmt': 'n8 = 1\nn9 = 2', 'expr': 'n8, n9'}.get('stmt' if isinstance(t.a, ast.stmt) else 'expr' if isinstance(t.a, ast.expr) and isinstance(getattr(t.a, 'ctx', ast.Load()), ast.Load) else None)
                                    if code:
                                        t.parent.put_slice(code, pf.idx, pf.idx + 1, pf.name, norm=True)
                                        inserted += 6
                                        applied += 1
                                        log.append(('replace_slice', rel, steps - 1))
                                        ctx.cell('replace_slice', rel, on, back, all_)
                        except Exception as e:
                            log.append(('refused', a, rel, type(e).__name__))
                            ctx.count('consumer_edit_refused')
                            expect_child_of = expect_exact = None
            if send is not None:
                if send is False and not leaving:
                    sub_before = {id(x) for x in g.walk(True, self_=False)} if g.a is not None else set()
                again = gen.send(send)   # the generator re-yields the same node to absorb the send ("can send multiple times")
                if again is not None and (again[0] if on == 'both' else again) is not g:
                    ctx.violation('send-does-not-reyield-current-node', f'{label} {params}: send({send}) at {g!r} returned {again!r}; log {log}', case)
                    return applied
                item = next(gen, None)
                if on == 'both' and item is not None:
                    pass
                if send is False and on == 'enter' and not leaving and item is not None and id(item) in sub_before:
                    ctx.violation('send-false-not-honoured-during-modification', f'{label} {params}: after send(False) at {g!r} the walk entered its child {item!r}; log {log}', case)
                    return applied
                ctx.cell(a, '-', on, back, all_)
                continue
            item = next(gen, None)
    except Exception as e:
        import traceback
        tb = traceback.extract_tb(e.__traceback__)
        where = f'{tb[-1].filename.split("/")[-1]}:{tb[-1].name}' if tb else '?'
        ctx.violation(f'walk-raised:{type(e).__name__}', f'{label} {params}: generator raised {type(e).__name__}: {short(str(e), 100)} at {where} after {log}', case)
        return applied
    if expect_rewalk is not None and not expect_rewalk[1] <= expect_rewalk[2] and expect_rewalk[0].a is not None:
        ctx.violation('send-true-after-replace-does-not-walk-new-children', f'{label} {params}: the current node was replaced by a node with children and send(True) was sent; the walk ended after only {len(expect_rewalk[1] & expect_rewalk[2])} of its {len(expect_rewalk[1])} new descendants were yielded; log {log}', case)
        return applied
    ctx.count('schedules_executed')
    ctx.evaluations += 1
    ctx.count('mutating_actions_applied', applied)
    ctx.count('yields_checked', steps)
    if applied:
        ok, detail = insync(root)
        if ok is False:
            ctx.violation(f'tree-out-of-sync-after-walk:{detail}', f'{label} {params}: after schedule {log} source and tree differ ({detail}); src={short(root.src, 200)!r}', case)
    import fst as fstmod
    if fstmod.fst_core._MODIFYING:
        ctx.violation('modification-registry-not-empty-after-walk', f'{label} {params}: {log}', case)
        fstmod.fst_core._MODIFYING.clear()
    return applied


def count_yields(FST, src, params):
    on, back, recurse, all_ = params
    allv = ast.Name if all_ == 'Name' else all_
    return sum(1 for _ in FST(src, 'exec').walk(allv, on, back=back, recurse=recurse))


def run_search_sub(ctx, FST, rnd):
    """search()/sub() built on walk: mutate in the loop / callback"""
    from ..base import insync, short
    import fst.match as M
    src = rnd.choice(PROGS)
    root = FST(src, 'exec')
    case = {'src': src, 'kind': 'search'}
    keep = []
    try:
        n = 0
        for m in root.search(ast.Name):
            n += 1
            g = m.matched
            keep.append(g)
            if g.a is None or g.root is not root:
                ctx.violation('search-yields-dead-node', f'search(Name) on {src!r} yielded a dead/foreign node', case)
                return
            if rnd.random() < 0.5 and isinstance(getattr(g.a, 'ctx', None), ast.Load) and g.parent and not isinstance(g.parent.a, (ast.Attribute, ast.keyword)):
                try:
                    if rnd.random() < 0.7:
                        g.replace(rnd.choice(['nw', 'n1 + n2', '[n1, n2]']), norm=True)
                    else:
                        g.remove(norm=True)
                except Exception:
                    ctx.count('consumer_edit_refused')
            if n > 400:
                ctx.violation('search-does-not-terminate-within-bound', f'search(Name) on {src!r}', case)
                return
    except Exception as e:
        ctx.violation(f'search-raised:{type(e).__name__}', f'search(Name) with edits on {src!r}: {type(e).__name__}: {e}', case)
        return
    ctx.count('search_schedules')
    ctx.count('schedules_executed')
    ok, detail = insync(root)
    if ok is False:
        ctx.violation(f'tree-out-of-sync-after-search:{detail}', f'after search with edits: {short(root.src, 200)!r}', case)
    # sub with a callback
    root = FST(src, 'exec')
    calls = []
    try:
        root.sub(M.MName(ctx=ast.Load), 'repl_name', callback=lambda f: calls.append(f) or rnd.random() < 0.7)
        ctx.count('sub_schedules')
        ctx.count('schedules_executed')
        ok, detail = insync(root)
        if ok is False:
            ctx.violation(f'tree-out-of-sync-after-sub:{detail}', f'after sub with callback: {short(root.src, 200)!r}', {'src': src, 'kind': 'sub'})
    except Exception as e:
        ctx.count('sub_raised:' + type(e).__name__)


def run(ctx):
    from fst import FST
    from .. import corpus
    combos = [(pi, params) for pi in range(len(PROGS)) for params in PARAMS]
    k = 0
    # all single-action schedules
    for ci, (pi, params) in enumerate(combos):
        if not ctx.mine(ci):
            continue
        if ctx.elapsed() > ctx.budget_s * 0.6:
            ctx.count('single_action_combos_skipped_time')
            continue
        src = PROGS[pi]
        try:
            ny = count_yields(FST, src, params)
        except Exception:
            continue
        execute(ctx, FST, src, params, {}, f'PROG[{pi}]')
        for yi in range(ny):
            for act in ACTS:
                rels = REL if act in ('replace', 'remove', 'replace_slice') else ['cur'] if act == 'replace_sendT' else ['-']
                for rel in rels:
                    for which in ((0, 1, 2) if act == 'replace' and rel == 'cur' else (0,)):
                        if ctx.out_of_time():
                            return
                        execute(ctx, FST, src, params, {yi: (act, rel, which)}, f'PROG[{pi}]')
        ctx.count('single_action_combos_exhausted')
    # two-action schedules (sampled in quick, all in thorough) and random deeper ones on REAL windows
    while not ctx.out_of_time():
        r = ctx.rnd.random()
        if r < 0.1:
            run_search_sub(ctx, FST, ctx.rnd)
            continue
        if r < 0.7:
            pi = ctx.rnd.randrange(len(PROGS))
            src, label = PROGS[pi], f'PROG[{pi}]'
        else:
            label, src = corpus.window(ctx.rnd, max_len=500)
        params = ctx.rnd.choice(PARAMS)
        try:
            ny = count_yields(FST, src, params)
        except Exception:
            continue
        if not ny:
            continue
        sched = {}
        for _ in range(ctx.rnd.choice([2, 2, 3, 4])):
            act = ctx.rnd.choice(ACTS)
            sched[ctx.rnd.randrange(ny)] = (act, ctx.rnd.choice(REL) if act in ('replace', 'remove', 'replace_slice') else '-', ctx.rnd.randrange(4))
        execute(ctx, FST, src, params, sched, label)
        ctx.count('multi_action_schedules')
        if len(ctx.samples) < 4:
            ctx.sample({'program': label, 'src': src[:80], 'params': list(map(str, params)), 'schedule': {str(k): list(v) for k, v in sched.items()}})


def replay(ctx, case):
    from fst import FST
    if 'schedule' in case:
        sched = {int(k): tuple(v) for k, v in case['schedule'].items()}
        p = case['params']
        execute(ctx, FST, case['src'], (p[0], p[1], p[2], p[3]), sched, case.get('label', 'replay'))
