#!/usr/bin/env python3
"""Re-run every stored seeded change against the current checks (serially; each run uses all cores).
usage: seed_regress.py [name-prefix ...]   -- rewrites seeded/<name>/meta.json, prints a matrix line per change."""
import glob, json, os, subprocess, sys
here = os.path.dirname(os.path.dirname(os.path.abspath(__file__)))
want = sys.argv[1:]
for d in sorted(glob.glob(os.path.join(here, 'seeded', '*'))):
    name = os.path.basename(d)
    if want and not any(name.startswith(w) for w in want):
        continue
    try:
        m = json.load(open(os.path.join(d, 'meta.json')))
    except Exception:
        m = {}
    prop = m.get('breaks') or name.split('-')[0]
    checks = sorted({prop} | set(m.get('caught_by') or []))
    r = subprocess.run([sys.executable, os.path.join(here, 'tools', 'seed_eval.py'), name, os.path.join(d, 'patch.diff'), os.path.join(d, 'demo.py'), prop, m.get('needs') or '-',
                        '--checks=' + ','.join(checks)], capture_output=True, text=True)
    print((r.stdout.strip().splitlines() or ['?'])[-1][:300], flush=True)
