"""Shard entry, run under /venv/bin/python with PYTHONPATH=<repo>/src:/verif.

usage: python -m pfstmon.shard <PROP> <tier> <seed> <shard> <nshards> <budget_s> <outpath>
       python -m pfstmon.shard <PROP> replay <path>
"""

import importlib
import json
import sys
import traceback
import warnings

warnings.simplefilter('ignore')
sys.setrecursionlimit(10000)

from .base import Ctx, Inconclusive, assert_fst_origin


def main(argv):
    prop = argv[1]
    mod = importlib.import_module('pfstmon.props.' + prop.lower())
    if argv[2] == 'replay':
        assert_fst_origin()
        case = json.load(open(argv[3]))
        ctx = Ctx(prop, 'quick', 0, 0, 1, 600)
        if isinstance(case, dict) and 'case' in case and 'key' in case:
            case = case['case']
        if not hasattr(mod, 'replay'):
            print('replay not supported for', prop)
            return 3
        mod.replay(ctx, case)
        for v in ctx.violations:
            print('REPLAY-VIOLATION', v['key'], v['message'])
        print('replay: %d violation(s)' % len(ctx.violations))
        return 1 if ctx.violations else 0
    tier, seed, shard, nshards, budget, out = argv[2], int(argv[3]), int(argv[4]), int(argv[5]), float(argv[6]), argv[7]
    ctx = Ctx(prop, tier, seed, shard, nshards, budget)
    try:
        ctx.fst_path = assert_fst_origin()
        mod.run(ctx)
    except Inconclusive as e:
        ctx.notes.append('INCONCLUSIVE: ' + str(e))
        ctx.count('inconclusive')
    except Exception:
        ctx.notes.append('HARNESS-ERROR: ' + traceback.format_exc()[-3000:])
        ctx.count('harness_error')
    ctx.dump(out)
    return 0


if __name__ == '__main__':
    sys.exit(main(sys.argv))
