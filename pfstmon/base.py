"""Shared monitor context and reference (CPython-only) oracles.

Everything in here that *judges* uses only CPython's ast / tokenize; pfst's verify()/compare are never consulted.
"""

import ast
import io
import json
import os
import random
import sys
import time
import tokenize
import traceback

REPO_SRC = os.environ.get('VERIF_REPO_SRC', '/repo/src')


def D(a):
    return ast.dump(a, include_attributes=True)


def S(a):
    return ast.dump(a)


class Inconclusive(Exception):
    pass


def assert_fst_origin():
    import fst
    p = os.path.realpath(fst.__file__)
    if not p.startswith(os.path.realpath(REPO_SRC) + os.sep):
        raise Inconclusive(f'fst imported from {p}, expected under {REPO_SRC}')
    return p


# ----------------------------------------------------------------------------------------------------------------------
# reference parsing

def refparse(src):
    """ast.parse with the end-of-file convention (see DESIGN C01). Returns (ast | None, used_eof_retry)."""
    try:
        return ast.parse(src), False
    except SyntaxError:
        if src.endswith('\\\n') or src.endswith('\\'):
            try:
                return ast.parse(src + ('\n' if src.endswith('\n') else '\n\n')), True
            except SyntaxError:
                return None, True
        return None, False
    except (ValueError, RecursionError, MemoryError):
        return None, False


def shift_positions(tree, dline, dcol_first_line=0, first_line=1):
    """Shift all positions in `tree` by dline lines; columns on line `first_line` (pre-shift) by dcol."""
    for n in ast.walk(tree):
        if hasattr(n, 'lineno') and n.lineno is not None:
            if n.lineno == first_line:
                n.col_offset += dcol_first_line
            if n.end_lineno == first_line:
                n.end_col_offset += dcol_first_line
            n.lineno += dline
            n.end_lineno += dline
    return tree


def ref_for_root(root):
    """Reference tree for a live pfst root, from root.src by CPython's parser only.

    Returns (ref_ast | None, kind) where kind in {'module','expr','stmt','unsupported','unparsable'}.
    """
    a = root.a
    src = root.src
    if isinstance(a, ast.Module):
        ref, _ = refparse(src)
        return ref, ('module' if ref is not None else 'unparsable')
    if isinstance(a, ast.Expression):
        try:
            return ast.parse(src, mode='eval'), 'module'
        except SyntaxError:
            return None, 'unparsable'
    if isinstance(a, ast.Interactive):
        # pfst lets an Interactive hold several statements; CPython's 'single' mode refuses that, so the reference is the
        # statement list of an ordinary parse re-wrapped
        ref, _ = refparse(src)
        if ref is None:
            return None, 'unparsable'
        return ast.Interactive(body=ref.body), 'module'
    if isinstance(a, ast.expr) and not isinstance(a, (ast.Slice, ast.Starred)):
        if isinstance(a, ast.Tuple) and any(isinstance(e, (ast.Slice, ast.Starred)) for e in a.elts):
            return None, 'unsupported'  # only valid inside a subscript / needs its own embedding
        # layout-neutral embedding: the fragment on its own lines inside parentheses
        try:
            m = ast.parse('(\n' + src + '\n)')
        except SyntaxError:
            return None, 'unparsable'
        if len(m.body) != 1 or not isinstance(m.body[0], ast.Expr):
            return None, 'unparsable'
        e = m.body[0].value
        shift_positions(e, -1)
        if isinstance(e, ast.Tuple) and isinstance(a, ast.Tuple) and (e.lineno, e.col_offset) == (0, 0):
            # unparenthesized tuple: wrapper parens became the tuple's own; recompute extent from children
            # (pfst: undelimited tuple spans first to last element / trailing comma - not judged here)
            return None, 'unsupported'
        return e, 'expr'
    if isinstance(a, ast.stmt):
        ref, _ = refparse(src)
        if ref is None:
            return None, 'unparsable'
        if len(ref.body) != 1:
            return None, 'unparsable'
        return ref.body[0], 'stmt'
    return None, 'unsupported'


def insync(root):
    """C01 oracle. Returns (verdict, detail): verdict in True / False / None(unsupported root kind)."""
    ref, kind = ref_for_root(root)
    if kind == 'unsupported':
        return None, 'unsupported-root:' + type(root.a).__name__
    if ref is None:
        return False, 'unparsable'
    dr, dl = D(ref), D(root.a)
    if dr == dl:
        return True, kind
    if S(ref) != S(root.a):
        return False, 'structure'
    return False, 'positions'


def first_diff(x, y, ctx=120):
    for i, (p, q) in enumerate(zip(x, y)):
        if p != q:
            return {'ref': x[max(0, i - ctx):i + ctx], 'live': y[max(0, i - ctx):i + ctx]}
    return {'ref_len': len(x), 'live_len': len(y), 'ref_tail': x[-ctx:], 'live_tail': y[-ctx:]}


# ----------------------------------------------------------------------------------------------------------------------
# tokens

def toks(src):
    """tokenize -> list of TokenInfo; None if the tokenizer fails."""
    try:
        return list(tokenize.generate_tokens(io.StringIO(src).readline))
    except (tokenize.TokenError, SyntaxError, IndentationError):
        return None


def comment_multiset(src):
    t = toks(src)
    if t is None:
        return None
    out = {}
    for x in t:
        if x.type == tokenize.COMMENT:
            out[x.string] = out.get(x.string, 0) + 1
    return out


def leaf_tokens(src):
    """NAME/NUMBER/STRING token strings in order (f-string parts included as their middle/str tokens)."""
    t = toks(src)
    if t is None:
        return None
    keep = (tokenize.NAME, tokenize.NUMBER, tokenize.STRING, tokenize.FSTRING_MIDDLE)
    return [x.string for x in t if x.type in keep]


# ----------------------------------------------------------------------------------------------------------------------
# monitor context

class Ctx:
    """Per-shard monitor context: counters, distinct cells, samples, violations; written as JSON at the end."""

    MAX_SAMPLES = 6
    MAX_VIOLATIONS = 40

    def __init__(self, prop, tier, seed, shard, nshards, budget_s):
        self.prop = prop
        self.tier = tier
        self.seed = seed
        self.shard = shard
        self.nshards = nshards
        self.budget_s = budget_s
        self.t0 = time.monotonic()
        self.rnd = random.Random(seed * 1000003 + shard)
        self.counters = {}
        self.cells = set()
        self.samples = []
        self.violations = []
        self.notes = []
        self.evaluations = 0

    # time
    def elapsed(self):
        return time.monotonic() - self.t0

    def time_left(self):
        return self.budget_s - self.elapsed()

    def out_of_time(self):
        return self.elapsed() > self.budget_s

    # counting
    def count(self, name, n=1):
        self.counters[name] = self.counters.get(name, 0) + n

    def cell(self, *parts):
        self.cells.add('|'.join(str(p) for p in parts))

    def sample(self, obj, force=False):
        if len(self.samples) < self.MAX_SAMPLES or force:
            self.samples.append(obj)

    def mine(self, i):
        """Static sharding of an enumeration: is item i this shard's?"""
        return i % self.nshards == self.shard

    def violation(self, key, message, case, prop=None):
        self.count('violations')
        self.count('violation:' + key)
        if len(self.violations) < self.MAX_VIOLATIONS and sum(1 for v in self.violations if v['key'] == key) < 6:
            self.violations.append({'property': prop or self.prop, 'key': key, 'message': message[:2000], 'case': case})

    def dump(self, path):
        out = {
            'prop': self.prop, 'tier': self.tier, 'seed': self.seed, 'shard': self.shard,
            'evaluations': self.evaluations, 'counters': self.counters, 'cells': sorted(self.cells),
            'samples': self.samples, 'violations': self.violations, 'notes': self.notes,
            'elapsed': self.elapsed(),
        }
        tmp = path + '.tmp'
        with open(tmp, 'w') as f:
            json.dump(out, f, default=repr)
        os.replace(tmp, path)


def short(s, n=400):
    s = s if isinstance(s, str) else repr(s)
    return s if len(s) <= n else s[:n] + f'...[{len(s)}]'


def exc_site(exc):
    """Innermost pfst frame (file:line:function) of an exception's traceback."""
    tb = exc.__traceback__
    site = None
    while tb is not None:
        fn = tb.tb_frame.f_code.co_filename
        if os.sep + 'fst' + os.sep in fn and fn.startswith(os.path.realpath(REPO_SRC)):
            site = f'{os.path.basename(fn)}:{tb.tb_frame.f_code.co_name}'
        tb = tb.tb_next
    return site


def alias_coords(rnd, lines, ln, col, end_ln, end_col, p=0.25):
    """The same source rectangle spelled with the documented aliases of put_src/get_src coordinates: 'end', negative line numbers,
    negative columns (relative to the end of THEIR line) and over-large columns (clipped). Returns a 4-tuple."""
    n = len(lines)

    def a_ln(l):
        r = rnd.random()
        if r < p / 2:
            return l - n
        if r < p and l == n - 1:
            return 'end'
        return l

    def a_col(l, c):
        r = rnd.random()
        L = len(lines[l])
        if r < p / 2 and c < L:
            return c - L
        if r < p and c == L:
            return rnd.choice(['end', L + rnd.randint(1, 5)])
        return c
    return a_ln(ln), a_col(ln, col), a_ln(end_ln), a_col(end_ln, end_col)
