#!/usr/bin/env python3
"""Regenerate MANIFEST.json from the property modules' META (claimed) and the list below (not claimed)."""
import glob, json, os, sys
HERE = os.path.dirname(os.path.dirname(os.path.abspath(__file__)))
sys.path.insert(0, HERE)
from pfstmon.runner import load_meta

ALL = ['C%02d' % i for i in range(1, 21)]
checks, na = [], []
for pid in ALL:
    path = os.path.join(HERE, 'pfstmon', 'props', pid.lower() + '.py')
    if not os.path.exists(path):
        na.append({'property_id': pid, 'reason': 'monitor not built yet in this round (planned in DESIGN.md); runtime monitoring does apply'})
        continue
    m = load_meta(pid)
    checks.append({
        'property_id': pid,
        'quick_cmd': f'python3 check {pid} --tier quick',
        'thorough_cmd': f'python3 check {pid} --tier thorough',
        'evidence_file': f'evidence/{pid}.json',
        'replay_cmd_template': f'python3 check {pid} --replay {{path}}',
        'engine': 'pfstmon',
        'level_claimed': {'category': m['level'], 'text': m.get('level_text', m['rule'])[:1500], 'design_ref': f'DESIGN.md §{pid}'},
        'level_note': '; '.join(m.get('assumptions', [])) or 'CPython 3.12 ast/tokenize as reference; monitor code in /verif/pfstmon',
        'technique': m.get('technique', 'runtime monitoring: hook-exit oracle over generated executions'),
    })
man = {
    'version': 1,
    'setup_cmd': 'python3 tools/setup_check.py',
    'hooks': {'guard': 'PFST_VERIF', 'enable': 'no source hooks: monitors wrap the public API from outside; checks import pfst from /repo/src (PYTHONPATH) on every run',
              'baseline_off_cmd': 'cd /repo && /venv/bin/python -m pytest -ra -q -p no:cacheprovider --timeout=900 --continue-on-collection-errors',
              'source_commits': [], 'add_only': True},
    'engines': [{'name': 'pfstmon', 'path': 'pfstmon/', 'serves_properties': [c['property_id'] for c in checks],
                 'kind_free_text': 'runtime monitors + reference oracles (CPython ast/tokenize/symtable/re) over sharded generated workloads'}],
    'checks': checks,
    'not_applicable': na,
    'notes': 'exit 0 held / 1 VIOLATION / 3 INCONCLUSIVE (deciding monitor under its floor, shard timeout, fst not imported from /repo/src). Known findings: KNOWN_FINDINGS.json.',
}
json.dump(man, open(os.path.join(HERE, 'MANIFEST.json'), 'w'), indent=1)
print('claimed', [c['property_id'] for c in checks], 'n/a', [n['property_id'] for n in na])
