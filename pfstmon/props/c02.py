"""C02 - an edited tree is observationally identical to a fresh parse of its own source (no stale caches)."""

import ast

META = {
    'level': 'exploration',
    'rule': ('edit sequences (W1 ops incl. par/unpar, put_line_comment, put_docstr, put_src offset, reparse) on REAL windows / GRAMMAR programs of <= 150 nodes '
             '(600 thorough); BEFORE every edit the query battery is run on a random 40% of nodes and on all nodes near the target so every per-node cache '
             'is populated (cache priming); AFTER every successful edit whose source is in sync per the C01 oracle, ~60 queries per node (loc, bloc, pars, '
             'own_src, lines, links, navigation, views, every is_* predicate, docstring, line comment) are compared between the live tree and FST(root.src) in '
             'lock-step over the pure AST; root identity and a.f links checked. A cell is (op, target type, field, cached-keys-present). The fresh tree is built with the live tree\'s `indent` setting (a documented construction setting, inferred only when not given).'),
    'budget': {'quick': 50, 'thorough': 900},
    'floors': {'quick': {'battery_comparisons': 800, 'nodes_compared': 40000, 'cache_entries_live_at_edit': 50000},
               'thorough': {'battery_comparisons': 15000, 'nodes_compared': 800000, 'cache_entries_live_at_edit': 1000000}},
    'assumptions': ['two structurally equal trees are paired positionally over ast.iter_fields', 'steps whose result is not in sync per the C01 oracle are counted as skipped, never as held'],
    'technique': 'runtime monitoring: hook-exit invariant comparing a query battery on the live tree against a fresh parse, with cache priming',
}


def prime(root, FST, rnd, target_path, frac=0.4):
    from .. import battery
    idx = battery.path_index(root.a)
    n = 0
    live = 0
    for f in root.walk(True):
        p = idx.get(id(f.a), ())
        near = target_path is not None and (p[:len(target_path) - 1] == tuple(map(tuple, target_path[:-1])) or tuple(map(tuple, target_path))[:len(p)] == p)
        if near or rnd.random() < frac:
            battery.battery(f, idx, FST, heavy=True)
            n += 1
        live += len(getattr(f, '_cache', ()) or ())
    return n, live


def run_sequence(ctx, FST, rnd, weights, max_nodes):
    from .. import corpus, edits, battery
    from ..base import insync, short
    from .c01 import pick_program
    for _ in range(20):
        fn, src, applied = pick_program(ctx, rnd, rnd.random() < 0.3, max_len=1200 if max_nodes <= 150 else 4000)
        try:
            root = FST(src, 'exec')
        except Exception:
            continue
        if sum(1 for _ in ast.walk(root.a)) <= max_nodes:
            break
    else:
        return
    dfn, dsrc = corpus.window(rnd, max_len=1500)
    try:
        donors = edits.donor_codes(FST(dsrc, 'exec'), None, rnd)
    except Exception:
        donors = {}
    ctx.count('sequences')
    root_id = id(root)
    hist = []
    for i in range(18):
        if ctx.out_of_time():
            break
        norm = rnd.choice([True, None, None])
        r = rnd.random()
        if r < 0.08:
            step = {'op': 'reparse', 'path': [], 'kind': '-', 'form': '-', 'code': None, 'opts': {}, 'ttype': 'Module', 'ptype': '-', 'field': '-'}
        elif r < 0.25:
            step = edits.gen_step(rnd, root, donors, None, norm=norm, ops=['put_line_comment', 'put_docstr'], kinds=['stmt'])
        else:
            step = edits.gen_step(rnd, root, donors, weights, norm=norm, with_par=True)
        if step is None:
            break
        nprimed, live = prime(root, FST, rnd, step['path'])
        ctx.count('nodes_primed', nprimed)
        ctx.count('cache_entries_live_at_edit', live)
        before = root.src
        try:
            if step['op'] == 'reparse':
                root.reparse()
            else:
                edits.apply_step(root, step, FST)
        except Exception:
            ctx.count('step_raised')
            if root.src != before:
                break
            continue
        ok, detail = insync(root)
        if ok is not True:
            ctx.count('skipped_not_in_sync(C01 oracle)')
            break
        ctx.evaluations += 1
        case = {'src': before, 'steps': [step], 'workload': 'seq'}
        if id(root) != root_id or root.a.f is not root or not root.is_root:
            ctx.violation('root-identity-changed', f'after {step["op"]}: root object/links changed', case)
            break
        try:
            n, diff = battery.compare_with_fresh(root, FST)
        except Exception as e:
            ctx.violation('battery-raised', f'after {step["op"]} on {step["ptype"]}.{step["field"]}: {type(e).__name__}: {e}', case)
            break
        ctx.count('battery_comparisons')
        ctx.count('nodes_compared', n)
        if root.src != before:
            ctx.cell(step['op'], step['ttype'], step['field'])
        if len(hist) < 3:
            hist.append({k: step[k] for k in ('op', 'ptype', 'field', 'form', 'code', 'opts')})
        if diff:
            cls, path, d = diff
            q = sorted(d)[0]
            ctx.violation(f'stale-or-wrong-answer:{q.split(":")[0]}', f'after {step["op"]} on {step["ptype"]}.{step["field"]} ({step["ttype"]}) opts={step["opts"]}: node {cls} at {path}: ' +
                          '; '.join(f'{k}: live={short(repr(v[0]), 150)} fresh={short(repr(v[1]), 150)}' for k, v in d.items()) + f' | src={short(root.src, 300)!r}', case)
            break
    if hist:
        ctx.sample({'file': fn, 'src': short(src, 160), 'first_steps': hist})


def run(ctx):
    from fst import FST
    weights = {}
    max_nodes = 150 if ctx.tier == 'quick' else 600
    while not ctx.out_of_time():
        run_sequence(ctx, FST, ctx.rnd, weights, max_nodes if ctx.rnd.random() < 0.8 else 60)


def replay(ctx, case):
    from fst import FST
    from .. import edits, battery
    import random
    root = FST(case['src'], 'exec')
    for step in case['steps']:
        prime(root, FST, random.Random(0), step['path'], frac=1.0)
        if step['op'] == 'reparse':
            root.reparse()
        else:
            edits.apply_step(root, step, FST)
        n, diff = battery.compare_with_fresh(root, FST)
        print('after', step['op'], 'compared', n, 'diff', diff)
        if diff:
            ctx.violation('stale-or-wrong-answer', repr(diff)[:500], case)
