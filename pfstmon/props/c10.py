"""C10 - raw source edits are equivalent to re-parsing the whole file, or change nothing."""

import ast
import io
import tokenize

META = {
    'level': 'exploration',
    'rule': ('put_src(action="reparse"), raw=True node puts and reparse() on small block-structured programs, GRAMMAR programs and REAL windows (<= 40 lines): rectangles from '
             'token boundaries, random off-token positions and spans across statements/blocks x a table of replacement texts (empty, space, newline(+indent), identifier, '
             'keyword, brackets, ":", ",", ";", "=", comment, statement, dedent/indent changes, multi-byte), in sequences of up to 6 successive raw edits. The monitor '
             'applies the splice itself and parses the result with ast.parse. Oracle: raised => source, dump(include_attributes), root identity unchanged and no _MODIFYING '
             'entry; returned => root.src equals the requested splice, the whole new source is valid, and the tree equals the from-scratch parse in structure and all '
             'positions. At least half of the edits are drawn from a CLEAN SUB-DOMAIN (inside one simple statement or block header, no newline/";" inserted or removed, not '
             'touching the last token) where no known-finding key can apply. A cell is (domain, removed-text class, inserted text, outcome). Coordinates are passed, with probability 1/4 per coordinate, in one of the documented alias spellings (negative line, negative column relative to its own line, \'end\', over-large column).'),
    'budget': {'quick': 45, 'thorough': 900},
    'floors': {'quick': {'coordinates_spelled_with_aliases(negative/end/clipped)': 15000, 'raw_edits_checked': 20000, 'clean_domain_edits': 8000, 'returned_and_compared': 6000, 'raised_and_compared': 6000},
               'thorough': {'coordinates_spelled_with_aliases(negative/end/clipped)': 90000, 'raw_edits_checked': 400000, 'clean_domain_edits': 150000, 'returned_and_compared': 100000, 'raised_and_compared': 100000}},
    'assumptions': ['validity of the new whole source = ast.parse (with the end-of-file convention)', 'raw node puts may adjust the put text: their post-source is taken as given'],
    'technique': 'runtime monitoring: hook-exit invariant against an independent splice + full re-parse reference',
}

PROGS = [
    'if a:\n    x = 1\n    y = f(x, 2)\nelif b:\n    pass\nelse:\n    z = [1, 2]\n',
    'def f(a, b=2):\n    """doc"""\n    for i in range(a):\n        if i: continue\n        print(i); q = 3\n    return a + b\nclass C(B):\n    x: int = 1\n    def m(self): return self.x\n',
    'try:\n    a()\nexcept E as e:\n    b()\nfinally:\n    c()\nwith o as p, q:\n    r = (1 +\n         2)\nmatch v:\n    case 1: pass\n    case [a, b]: w = a\n',
    'x = 1; y = 2\nz = x if y else 3  # comment\nwhile x: x -= 1\n',
    'é = "日本"; ü = é + 1\nif é:\n    ñ = [é, ü]  # ü\n    print(ñ)\n',
    'for i in j:\n    if i:\n        a = 1\n    else:\n        b = 2\nelse:\n    c = 3\nd = 4\n',
    '@dec\nasync def g(x, *y, **z):\n    async with a as b:\n        await c\n    return [i for i in x if i]\n',
    'class K:\n    def m(self):\n        try:\n            return 1\n        except* E:\n            pass\n    n = 2\n',
]
TEXTS = ['', ' ', 'x', 'pass', '\n', '1', '(', ')', ':', ',', 'if', ' + 1', '\n    ', 'a = b', '#c', 'else', 'y\n', '  ', '=', 'é', '"s"', ';', 'z = 3\n', '\n\n', '        ', 'elif q:\n    pass\n',
         'def h(): pass\n', '\\\n', '"""', '[', ']', ' and ', 'not ', '.attr', '()', 'lambda: 0', '\t', '日本']
CLEAN_TEXTS = ['', ' ', 'x', '1', '(', ')', ',', ' + 1', '=', 'é', '"s"', 'if', '  ', '.attr', '()', ' and ', 'not ', '[', ']', 'y', '日本', 'x.y', '0 or ']


def stmt_containers(tree):
    out = []
    for n in ast.walk(tree):
        for f in ('body', 'orelse', 'finalbody', 'handlers', 'cases'):
            v = getattr(n, f, None)
            if isinstance(v, list) and v:
                out.append(len(v))
    return sorted(out)


def splice(lines, ln, col, end_ln, end_col, text):
    new_lines = lines[:]
    new_lines[ln:end_ln + 1] = (lines[ln][:col] + text + lines[end_ln][end_col:]).split('\n')
    return '\n'.join(new_lines)


def tokens(src):
    try:
        return [t for t in tokenize.generate_tokens(io.StringIO(src).readline) if t.type not in (tokenize.NL, tokenize.NEWLINE, tokenize.INDENT, tokenize.DEDENT, tokenize.ENDMARKER, tokenize.COMMENT)]
    except Exception:
        return []


def clean_rect(rnd, src, tree):
    """A rectangle in the clean sub-domain, or None."""
    lines = src.split('\n')
    simple = []
    for n in ast.walk(tree):
        if isinstance(n, ast.stmt):
            if isinstance(n, (ast.FunctionDef, ast.AsyncFunctionDef, ast.ClassDef, ast.If, ast.For, ast.AsyncFor, ast.While, ast.With, ast.AsyncWith, ast.Try, ast.TryStar, ast.Match)):
                # header line: from the statement's first line up to the ':' that ends the header (single-line headers only)
                first = n.body[0] if getattr(n, 'body', None) else None
                if isinstance(n, (ast.Try, ast.TryStar)) or getattr(n, 'decorator_list', None) or first is None:
                    continue
                hl = n.lineno
                if first.lineno == hl:
                    continue  # one-line block: body on the header line
                simple.append(('header', hl))
            elif n.lineno == n.end_lineno and not lines[n.lineno - 1][:n.col_offset].strip():
                simple.append(('simple', n.lineno))   # single-line simple statement that starts its line (not the body of a one-line block)
    if not simple:
        return None
    kind, ln1 = rnd.choice(simple)
    line = lines[ln1 - 1]
    if ';' in line or '#' in line or '\\' in line or (ln1 >= 2 and lines[ln1 - 2].rstrip().endswith('\\')):
        return None
    tk = [t for t in tokens(src) if t.start[0] == ln1 and t.end[0] == ln1]
    if len(tk) < 3:
        return None
    # statements sharing the line (one-line blocks) are excluded by the ';' / header test above
    body = tk[:-1]  # never touch the last token
    a = rnd.choice(body)
    b = rnd.choice(body)
    pts = sorted([rnd.choice([a.start[1], a.end[1]]), rnd.choice([b.start[1], b.end[1]])])
    last_start = tk[-1].start[1]
    if pts[1] > last_start:
        return None
    if pts[0] <= tk[0].start[1] or (kind == 'header' and pts[0] < tk[0].end[1]):
        return None   # never at/inside the indentation boundary; never inside a header's keyword
    # never remove/alter the first token of a header (its keyword) partially: fine, the oracle decides by full reparse
    return kind, ln1 - 1, pts[0], ln1 - 1, pts[1]


def judge(ctx, FST, root, lines_before, rect, text, domain, hist, MOD):
    """Perform one put_src(reparse) and judge it. Returns True to continue the sequence."""
    from ..base import D, S, refparse, short
    ln, col, end_ln, end_col = rect
    src = root.src
    lines = src.split('\n')
    new_src = splice(lines, ln, col, end_ln, end_col, text)
    ref, _ = refparse(new_src)
    before = (src, D(root.a), id(root))
    removed = '\n'.join(lines[ln:end_ln + 1])
    removed = removed[col:len(removed) - (len(lines[end_ln]) - end_col)]
    from ..base import alias_coords
    spelled = alias_coords(ctx.rnd, lines, ln, col, end_ln, end_col)
    if spelled != (ln, col, end_ln, end_col):
        ctx.count('coordinates_spelled_with_aliases(negative/end/clipped)')
    case = {'workload': 'put_src', 'src0': hist['src0'], 'edits': hist['edits'] + [[ln, col, end_ln, end_col, text]], 'domain': domain, 'spelled': list(spelled)}
    try:
        root.put_src(text, *spelled)
        raised = None
    except Exception as e:
        raised = e
    ctx.count('raw_edits_checked')
    ctx.evaluations += 1
    if domain == 'clean':
        ctx.count('clean_domain_edits')
    rcls = 'empty' if not removed else 'nl' if '\n' in removed else 'semi' if ';' in removed else 'text'
    kind = None
    if raised is not None:
        ctx.count('raised_and_compared')
        if (root.src, D(root.a), id(root)) != before:
            kind = 'nonatomic'
        elif root in MOD:
            kind = 'stale-lock'
            MOD.pop(root, None)
        elif ref is not None:
            kind = 'refused-valid'
        out = 'raised'
    else:
        ctx.count('returned_and_compared')
        if ref is None:
            kind = 'accepted-invalid'
        elif root.src != new_src:
            kind = 'source-not-the-splice'
        elif id(root) != before[2] or root.a.f is not root:
            kind = 'root-identity'
        elif D(root.a) != D(ref):
            kind = 'tree-mismatch'
        out = 'returned'
    ctx.cell(domain, rcls, text if len(text) < 8 else 'long', out)
    if kind is None:
        hist['edits'].append([ln, col, end_ln, end_col, text])
        return raised is None or True
    # mechanism key from reference-side facts only
    key = f'{kind}'
    old_tree, _ = refparse(src)
    nl = ('\n' in text) or ('\n' in removed) or (';' in text) or (';' in removed) or col <= len(lines[ln]) - len(lines[ln].lstrip()) or '#' in text
    if domain == 'clean':
        key = 'clean-domain:' + kind
    elif kind == 'accepted-invalid':
        key = 'region-valid-whole-invalid'
    elif kind == 'tree-mismatch':
        if S(root.a) == S(ref):
            diffs = set()
            for n1, n2 in zip(ast.walk(root.a), ast.walk(ref)):
                for at in ('lineno', 'col_offset', 'end_lineno', 'end_col_offset'):
                    if getattr(n1, at, None) != getattr(n2, at, None):
                        diffs.add(at)
            key = 'ancestor-end-offset-not-recomputed' if diffs <= {'end_lineno', 'end_col_offset'} else 'tree-mismatch:positions'
        elif S(root.a).replace('TryStar(', 'Try(') == S(ref).replace('TryStar(', 'Try('):
            key = 'except-star-marker-edit-not-propagated-to-try'
        elif old_tree is not None and stmt_containers(ref) != stmt_containers(old_tree):
            key = 'stmt-count-change'
        elif nl:
            key = 'stmt-count-change'  # statement boundaries inside the region changed (newline / ';' inserted or removed) although the counts balance
        else:
            key = 'tree-mismatch:structure'
    elif kind == 'refused-valid' and isinstance(raised, NotImplementedError):
        ctx.count('not_implemented(documented)')
        return False
    elif kind == 'refused-valid':
        def span_at(tree, line):
            best = None
            for n in ast.walk(tree):
                if isinstance(n, ast.stmt) and n.lineno <= line <= n.end_lineno and (best is None or (n.end_lineno - n.lineno) <= (best[1] - best[0])):
                    best = (n.lineno, n.end_lineno, n.end_col_offset)
            return best
        so, sn = (span_at(old_tree, ln + 1), span_at(ref, ln + 1)) if old_tree is not None else (None, None)
        if so and sn and so[1] == ln + 1 and ln == end_ln:
            so = (so[0], so[1], so[2] + len(text.encode()) - len(removed.encode()))   # where the statement would end if only the splice had moved it
        if (old_tree is not None and stmt_containers(ref) != stmt_containers(old_tree)) or nl:
            key = 'stmt-count-change'
        elif old_tree is not None and so != sn:
            key = 'stmt-count-change'   # the edit moves the END of the statement (e.g. removes a string's closing quote so that it runs on into a comment or the next lines): statement boundaries change although the counts balance
        elif ':' in text or ':' in removed:
            key = 'block-header-colon-edit-refused-although-whole-valid'   # the header (or the statement) is re-parsed alone; where its ':' is decides what belongs to it
    msg = (f'put_src({text!r}, {ln}, {col}, {end_ln}, {end_col}) [{domain}] on {short(src, 300)!r}: {kind}; '
           f'{"raised " + type(raised).__name__ + ": " + short(str(raised), 100) if raised else "returned"}; reference new source is {"valid" if ref is not None else "INVALID"}; '
           f'src after={short(root.src, 300)!r}')
    ctx.violation(key, msg, case)
    return False


def random_rect(rnd, lines, tk):
    r = rnd.random()
    if r < 0.45 and tk:
        a = rnd.choice(tk)
        near = [t for t in tk if abs(t.start[0] - a.start[0]) <= 2]
        b = rnd.choice(near)
        p1 = (a.start[0] - 1, rnd.choice([a.start[1], a.end[1]]))
        p2 = (b.end[0] - 1, rnd.choice([b.start[1], b.end[1]])) if b.start[0] == b.end[0] else (b.end[0] - 1, b.end[1])
        if a.start[0] != a.end[0]:
            p1 = (a.start[0] - 1, a.start[1])
        p1, p2 = sorted([p1, p2])
        return p1[0], p1[1], p2[0], p2[1]
    ln = rnd.randrange(len(lines))
    col = rnd.randint(0, len(lines[ln]))
    if rnd.random() < 0.7:
        return ln, col, ln, rnd.randint(col, len(lines[ln]))
    end_ln = rnd.randint(ln, min(len(lines) - 1, ln + 4))
    return ln, col, end_ln, rnd.randint(col if end_ln == ln else 0, len(lines[end_ln]))


def run_put_src_sequence(ctx, FST, rnd, src, label, MOD):
    from ..base import refparse, short
    try:
        root = FST(src, 'exec')
    except Exception:
        return
    hist = {'src0': src, 'edits': []}
    for step in range(6):
        if ctx.out_of_time():
            return
        cur = root.src
        lines = cur.split('\n')
        tree, _ = refparse(cur)
        if tree is None:
            return
        domain = 'clean' if rnd.random() < 0.55 else 'general'
        if domain == 'clean':
            cr = clean_rect(rnd, cur, tree)
            if cr is None:
                domain = 'general'
            else:
                _, ln, col, end_ln, end_col = cr
                rect = (ln, col, end_ln, end_col)
                text = rnd.choice(CLEAN_TEXTS)
        if domain == 'general':
            rect = random_rect(rnd, lines, tokens(cur))
            text = rnd.choice(TEXTS)
        if not judge(ctx, FST, root, lines, rect, text, domain, hist, MOD):
            return
    if len(ctx.samples) < 4 and hist['edits']:
        ctx.sample({'program': label, 'src0': short(src, 120), 'edits': hist['edits'][:4], 'final': short(root.src, 120)})


def run_raw_node_puts(ctx, FST, rnd, src, MOD):
    """raw=True node puts and reparse(): post-source taken as given, tree must equal its full parse; raise => unchanged"""
    from .. import edits, corpus
    from ..base import D, refparse, short
    try:
        root = FST(src, 'exec')
    except Exception:
        return
    donors = {}
    for _ in range(5):
        if ctx.out_of_time():
            return
        step = edits.gen_step(rnd, root, donors, None, norm=None, ops=['replace', 'put', 'remove', 'insert', 'append', 'put_slice', 'put_slice_one', 'put_none'])
        if step is None:
            return
        step['opts'] = {'raw': True}
        step['form'] = rnd.choice(['src', 'fst', 'ast'])
        before = (root.src, D(root.a), id(root))
        case = {'workload': 'rawput', 'src': root.src, 'steps': [step]}
        try:
            edits.apply_step(root, step, FST)
            raised = None
        except Exception as e:
            raised = e
        ctx.count('raw_edits_checked')
        ctx.count('raw_node_puts')
        ctx.evaluations += 1
        ctx.cell('rawput', step['op'], step['kind'], 'raised' if raised else 'returned')
        if raised is not None:
            ctx.count('raised_and_compared')
            if (root.src, D(root.a), id(root)) != before:
                ctx.violation('rawput:nonatomic', f'raw {step["op"]} on {step["ptype"]}.{step["field"]} code={short(step["code"], 60)!r} raised {type(raised).__name__}: {short(str(raised), 100)} but the tree changed: {short(before[0], 200)!r} -> {short(root.src, 200)!r}', case)
                return
            if root in MOD:
                ctx.violation('rawput:stale-lock', f'raw {step["op"]} raised and left a _MODIFYING entry', case)
                MOD.pop(root, None)
                return
            continue
        ctx.count('returned_and_compared')
        ref, _ = refparse(root.src)
        code = step.get('code') or ''
        import re as _re
        star_handlers = lambda t: len(_re.findall(r'^[ \t]*except[ \t\\\n]*\*', t, _re.M))
        if (step['ptype'] == 'ExceptHandler' or 'ExceptHandler' in (step.get('anc') or ())) and code.lstrip('(').startswith('*') and \
                (step['ptype'] == 'ExceptHandler' or star_handlers(root.src) != star_handlers(before[0])):   # the put '*' became (part of) an except* marker
            ctx.violation('except-star-marker-edit-not-propagated-to-try', f'raw {step["op"]} of {code!r} into ExceptHandler.type: {short(root.src, 200)!r}', case)
            return
        structural = step['kind'] in ('stmt', 'handler', 'case') or any(c in code for c in '\n;#') or step['op'] not in ('replace', 'put')
        if ref is None:
            ctx.violation('region-valid-whole-invalid' if structural else 'rawput-clean:accepted-invalid', f'raw {step["op"]} on {step["ptype"]}.{step["field"]} code={short(step["code"], 60)!r} returned but the source is invalid: {short(root.src, 300)!r}', case)
            return
        if id(root) != before[2] or root.a.f is not root:
            ctx.violation('rawput:root-identity', f'raw {step["op"]}: root identity changed', case)
            return
        if D(ref) != D(root.a):
            from ..base import S
            key = 'stmt-count-change' if structural else 'rawput-clean:tree-mismatch'
            if S(ref) == S(root.a):
                diffs = {at for n1, n2 in zip(ast.walk(root.a), ast.walk(ref)) for at in ('lineno', 'col_offset', 'end_lineno', 'end_col_offset') if getattr(n1, at, None) != getattr(n2, at, None)}
                if diffs <= {'end_lineno', 'end_col_offset'}:
                    key = 'ancestor-end-offset-not-recomputed'
            ctx.violation(key, f'raw {step["op"]} on {step["ptype"]}.{step["field"]} code={short(step["code"], 60)!r}: tree differs from a full parse of {short(root.src, 300)!r}', case)
            return
    # reparse() on a random node
    nodes = [n.f for n in ast.walk(root.a) if hasattr(n, 'f') and hasattr(n, 'lineno')]
    if nodes:
        n = rnd.choice(nodes)
        before = (root.src, D(root.a), id(root))
        try:
            n.reparse()
        except Exception as e:
            if isinstance(e, NotImplementedError):
                ctx.count('not_implemented(documented)')
                return
            ctx.violation('reparse-raised-on-valid-tree', f'{type(e).__name__}: {e} on {type(n.a).__name__}', {'workload': 'reparse', 'src': root.src})
            return
        ctx.count('reparse_calls')
        ctx.count('raw_edits_checked')
        ctx.count('returned_and_compared')
        ref, _ = refparse(root.src)
        if root.src != before[0] or ref is None or D(ref) != D(root.a) or id(root) != before[2]:
            ctx.violation('reparse-changed-tree-or-source', f'reparse() on {type(n.a).__name__}: source/tree not equal to a full parse', {'workload': 'reparse', 'src': before[0]})


def run(ctx):
    from fst import FST
    from .. import corpus
    import fst as fstmod
    MOD = fstmod.fst_core._MODIFYING
    while not ctx.out_of_time():
        r = ctx.rnd.random()
        if r < 0.45:
            src, label = ctx.rnd.choice(PROGS), 'PROG'
        elif r < 0.6:
            src, label = ctx.rnd.choice(corpus.GRAMMAR_PROGRAMS), 'GRAMMAR'
        else:
            label, src = corpus.window(ctx.rnd, max_len=1500)
            if src.count('\n') > 40:
                continue
        if ctx.rnd.random() < 0.85:
            run_put_src_sequence(ctx, FST, ctx.rnd, src, label, MOD)
        else:
            run_raw_node_puts(ctx, FST, ctx.rnd, src, MOD)


def replay(ctx, case):
    from fst import FST
    from ..base import D, refparse
    if case.get('workload') == 'put_src':
        root = FST(case['src0'], 'exec')
        for ei, (ln, col, end_ln, end_col, text) in enumerate(case['edits']):
            src = root.src
            new_src = splice(src.split('\n'), ln, col, end_ln, end_col, text)
            ref, _ = refparse(new_src)
            coords = case['spelled'] if ei == len(case['edits']) - 1 and case.get('spelled') else [ln, col, end_ln, end_col]
            try:
                root.put_src(text, *coords)
                print('returned; ref', 'valid' if ref is not None else 'INVALID', '; equal:', ref is not None and root.src == new_src and D(ref) == D(root.a))
                if ref is None or root.src != new_src or D(ref) != D(root.a):
                    ctx.violation('replayed', 'mismatch', case)
            except Exception as e:
                print('raised', type(e).__name__, e, '; ref', 'valid' if ref is not None else 'invalid', '; unchanged:', root.src == src)
                if ref is not None or root.src != src:
                    ctx.violation('replayed', 'mismatch', case)
            print(repr(root.src))
