"""C20 - options and edits are isolated per call, per block and per thread."""

import ast

META = {
    'level': 'exploration',
    'rule': ('(i) per-call isolation: around every public edit of W1 sequences (with per-call options), FST.get_options() before == after, also on raise; (ii) options() blocks: '
             'generated nestings (depth <= 4) of option dicts whose bodies return, raise, raise inside nested blocks, or call set_options for OTHER options inside (documented to '
             'persist): a shadow stack model predicts get_options() at every point; (iii) validation before change: every option x a table of invalid values and unknown names in '
             'set_options(), options() and as call kwargs, mixed with valid options in the same call: ValueError and get_options() unchanged; (iv) threads: K in {2,4,8,16} '
             'threads, each with its own trees, own set_options/options() choices and a deterministic seeded edit script; transcript per step = (outcome class, hash of '
             'root.src, get_options()); oracle: each thread\'s transcript equals the transcript of the same script run alone in a fresh thread; a new thread always starts from '
             'the module defaults; _MODIFYING is empty when all threads are idle. Schedule diversity: sys.setswitchinterval(1e-6) + sys.monitoring LINE callbacks on '
             'fst_options functions and _Modifying.enter/success/fail doing sleep(0) with seeded probability; the event log gives observed cross-thread interleavings. '
             'A cell is (part, option/nesting shape) or (threads, overlap class). (v) API isolation: reconcile() (succeeding and failing during recursion), sub(), as_(), failing parses/puts, put_docstr, search under random non-default ambient defaults: get_options() and a probe of default-driven behaviour (walrus / trivia / arglike / pars / docstr / elif results) are the same after the call as before. Thread scripts set pars_arglike, pars_walrus, norm_get, docstr ... as thread defaults and record results that depend only on those defaults; each script is also run in the MAIN thread and its transcript must equal the worker-thread transcripts.'),
    'budget': {'quick': 30, 'thorough': 600},
    'floors': {'quick': {'api_isolation_checks': 1000, 'per_call_isolation_checks': 3000, 'nesting_points_checked': 3000, 'invalid_option_requests': 1500, 'thread_transcripts_compared': 60, 'cross_thread_switches_at_hooks': 2000},
               'thorough': {'api_isolation_checks': 6000, 'per_call_isolation_checks': 60000, 'nesting_points_checked': 60000, 'invalid_option_requests': 20000, 'thread_transcripts_compared': 1500, 'cross_thread_switches_at_hooks': 50000}},
    'assumptions': ['CPython 3.12 with the GIL: interleavings are at bytecode/line granularity (no free-threaded build available)', 'set_options inside an options() block for options NOT named by the block persists (documented)'],
    'technique': 'runtime monitoring: shadow-stack model for option scopes + alone-vs-concurrent transcript comparison under sys.monitoring yield injection',
}

VALID = {
    'raw': [False], 'trivia': [True, False, 'all', 'block+1', (), ('all', 'line'), 3], 'coerce': [True, False], 'promote': [True, False, 'identifier'], 'elif_': [True, False], 'pep8space': [True, False, 1],
    'docstr': [True, False, 'strict'], 'pars': ['auto', True, False], 'pars_walrus': [False, True, None], 'pars_arglike': [True, False, None], 'norm': [False, True, 'star'], 'norm_self': [None, True, False],
    'norm_get': [None, True], 'set_norm': ['star', 'call'], 'op_side': ['left', 'right'], 'args_as': [None, 'pos', 'kw'],
}
INVALID = {
    'raw': ['yes', 2, None], 'trivia': ['nope', 'block*', (1, 2, 3), ('x',), 1.5, ['all']], 'coerce': ['x', None, 2], 'promote': ['x', None, 2], 'elif_': ['x', None, 3], 'pep8space': [2, -1, 'x', None],
    'docstr': ['loose', None, 2], 'pars': ['maybe', None, 2], 'pars_walrus': ['x', 2], 'pars_arglike': ['x', 2], 'norm': ['x', None, 2], 'norm_self': ['x', 3], 'norm_get': ['x', 3],
    'set_norm': ['x', True, None], 'op_side': ['middle', None, True], 'args_as': ['x', True, 3], 'op': [3, 1.5],
}
UNKNOWN = ['bogus', 'Norm', 'trivia_', 'to', 'ins_ln', '__options_checked']


def freeze(d):
    return tuple(sorted((k, repr(v)) for k, v in d.items()))


# ----------------------------------------------------------------------------------------------------------------------
# (ii) nesting with a shadow stack

class Boom(Exception):
    pass


def gen_block(rnd, depth):
    """('block', opts, body) ; body is a list of ('check',) ('set', opts) ('block', ...) ('raise',)"""
    opts = {}
    for _ in range(rnd.randint(1, 3)):
        k = rnd.choice(list(VALID))
        opts[k] = rnd.choice(VALID[k])
    body = [('check',)]
    for _ in range(rnd.randint(0, 3)):
        r = rnd.random()
        if r < 0.4 and depth < 4:
            body.append(gen_block(rnd, depth + 1))
        elif r < 0.6:
            k = rnd.choice([x for x in VALID if x not in opts] or list(VALID))
            body.append(('set', {k: rnd.choice(VALID[k])}))
        elif r < 0.7:
            body.append(('raise',))
        body.append(('check',))
    return ('block', opts, body)


def exec_block(ctx, FST, blk, model, path):
    """Runs the block against pfst and the shadow model simultaneously. model: dict (current predicted get_options)."""
    _, opts, body = blk
    saved = {k: model[k] for k in opts}
    with FST.options(**opts):
        model.update(opts)
        try:
            for item in body:
                if item[0] == 'check':
                    ctx.count('nesting_points_checked')
                    got = FST.get_options()
                    if freeze(got) != freeze(model):
                        diff = {k: (got[k], model[k]) for k in model if repr(got.get(k)) != repr(model[k])}
                        raise AssertionError(f'inside {path}: get_options() differs from the shadow model: {diff}')
                elif item[0] == 'set':
                    FST.set_options(**item[1])
                    model.update(item[1])
                    for k in item[1]:
                        if k in saved:
                            pass
                elif item[0] == 'raise':
                    raise Boom()
                else:
                    try:
                        exec_block(ctx, FST, item, model, path + [sorted(item[1])])
                    except Boom:
                        if ctx.rnd.random() < 0.5:
                            raise
        finally:
            # documented: only the options named by the block are restored to their values at entry
            model.update(saved)
    return


def run_nesting(ctx, FST, n):
    from ..base import short
    defaults = dict(FST.get_options())
    for _ in range(n):
        blk = gen_block(ctx.rnd, 1)
        FST.set_options(**defaults)
        model = dict(defaults)
        case = {'part': 'nesting', 'block': repr(blk)[:3000]}
        try:
            try:
                exec_block(ctx, FST, blk, model, [sorted(blk[1])])
            except Boom:
                ctx.count('blocks_exited_by_exception')
            ctx.count('nesting_points_checked')
            ctx.evaluations += 1
            got = FST.get_options()
            if freeze(got) != freeze(model):
                diff = {k: (got[k], model[k]) for k in model if repr(got.get(k)) != repr(model[k])}
                ctx.violation('options-not-restored-after-block', f'after the outermost block: get_options() differs from the shadow model: {diff}', case)
            ctx.cell('nesting', len(repr(blk)) // 200, 'raise' if 'raise' in repr(blk) else 'plain')
        except AssertionError as e:
            ctx.violation('options-inside-block-differ-from-model', short(str(e), 400), case)
        finally:
            FST.set_options(**defaults)


# ----------------------------------------------------------------------------------------------------------------------
# (iii) validation before change

def run_invalid(ctx, FST, n):
    defaults = dict(FST.get_options())
    for _ in range(n):
        FST.set_options(**defaults)
        # start from a random valid state
        st = {}
        for _ in range(ctx.rnd.randint(0, 3)):
            k = ctx.rnd.choice(list(VALID))
            st[k] = ctx.rnd.choice(VALID[k])
        FST.set_options(**st)
        before = freeze(FST.get_options())
        bad = {}
        if ctx.rnd.random() < 0.75:
            k = ctx.rnd.choice(list(INVALID))
            bad[k] = ctx.rnd.choice(INVALID[k])
            what = 'value:' + k
        else:
            k = ctx.rnd.choice(UNKNOWN)
            bad[k] = True
            what = 'unknown:' + k
        good = {}
        for _ in range(ctx.rnd.randint(0, 2)):
            g = ctx.rnd.choice(list(VALID))
            if g not in bad:
                good[g] = ctx.rnd.choice(VALID[g])
        # order: valid options first so an update-before-validate implementation shows
        req = dict(good)
        req.update(bad)
        if ctx.rnd.random() < 0.3:
            req = dict(bad)
            req.update(good)
        how = ctx.rnd.choice(['set_options', 'options', 'call'])
        case = {'part': 'invalid', 'how': how, 'request': {k: repr(v) for k, v in req.items()}, 'state': {k: repr(v) for k, v in st.items()}}
        ctx.count('invalid_option_requests')
        ctx.evaluations += 1
        ctx.cell('invalid', how, what)
        raised = None
        try:
            if how == 'set_options':
                FST.set_options(**req)
            elif how == 'options':
                with FST.options(**req):
                    pass
            else:
                f = FST('[a, b]')
                f.elts[0].replace('c', **req)
        except ValueError as e:
            raised = e
        except Exception as e:
            raised = e
            if how != 'call' or k not in ('to', 'ins_ln'):
                ctx.count('invalid_option_other_exception:' + type(e).__name__)
        after = freeze(FST.get_options())
        if k in ('to', 'ins_ln') and how == 'call':
            continue   # dynamic call-only options are valid names in a call
        if raised is None and not (k == '__options_checked'):
            ctx.violation(f'invalid-option-accepted:{what}:{how}', f'{how}({req}) did not raise', case)
        if after != before:
            ctx.violation(f'invalid-option-request-changed-defaults:{how}', f'{how}({req}) {"raised " + type(raised).__name__ if raised else "returned"} and the thread defaults changed: {dict(set(after) - set(before))}', case)
    FST.set_options(**defaults)


# ----------------------------------------------------------------------------------------------------------------------
# (i) per call isolation

def run_per_call(ctx, FST, n_seq):
    from .. import corpus, edits
    for _ in range(n_seq):
        fn, src = corpus.window(ctx.rnd, max_len=1200)
        try:
            root = FST(src, 'exec')
        except Exception:
            continue
        for i in range(15):
            step = edits.gen_step(ctx.rnd, root, {}, None, norm=ctx.rnd.choice([True, None]))
            if step is None:
                break
            before = freeze(FST.get_options())
            try:
                edits.apply_step(root, step, FST)
                out = 'returned'
            except Exception as e:
                out = 'raised'
            ctx.count('per_call_isolation_checks')
            ctx.evaluations += 1
            ctx.cell('per-call', step['op'], out, '+'.join(sorted(step['opts'])))
            after = freeze(FST.get_options())
            if after != before:
                ctx.violation(f'call-options-leaked-into-defaults:{out}', f'{step["op"]} with opts {step["opts"]} {out}: defaults changed {dict(set(after) - set(before))}', {'part': 'percall', 'src': src, 'step': step})
                FST.set_options(**dict((k, eval(v)) for k, v in before))


def probe(FST):
    """Results that depend only on the thread's default options (nothing passed per call)."""
    out = []
    for src, fn in (('r = (w := 1), 2\n', lambda t: t.body[0].value.elts[0].copy().src), ('# lead\ns = 1  # trail\n\n# post\nq\n', lambda t: t.body[0].copy().src),
                    ('call(*not a, b)\n', lambda t: t.body[0].value.get_slice(0, 2, 'args').src), ('x = (a + b)\n', lambda t: t.body[0].value.copy().src),
                    ('def f():\n    """d\n    e"""\n', lambda t: t.body[0].copy().src), ('if a:\n    pass\nelse:\n    if b: pass\n', lambda t: (t.body[0].orelse[0].body[0].remove(), t.src)[1])):
        try:
            out.append(fn(FST(src, 'exec')))
        except Exception as e:
            out.append('exc:' + type(e).__name__)
    return tuple(out)


def run_api_isolation(ctx, FST, n):
    """Public calls that manage options internally (reconcile pins its own, coercion/sub forward per-call options): the thread defaults and
    the behaviour they drive must be the same after the call as before it - on return and on raise, under non-default ambient defaults."""
    import ast as ast_
    import fst.match as M
    defaults = dict(FST.get_options())
    valid = {k: v for k, v in VALID.items() if k in defaults}
    for _ in range(n):
        amb = {k: ctx.rnd.choice(v) for k, v in valid.items() if ctx.rnd.random() < 0.4 and k not in ('raw',)}
        try:
            FST.set_options(**amb)
        except Exception:
            FST.set_options(**defaults)
            continue
        before, pb = freeze(FST.get_options()), probe(FST)
        kind = ctx.rnd.choice(['reconcile-ok', 'reconcile-fail-stmt-in-expr', 'reconcile-fail-bad-node', 'sub', 'sub-fail', 'as-ok', 'as-fail', 'parse-fail', 'put-fail', 'docstr', 'search'])
        out = 'returned'
        try:
            if kind.startswith('reconcile'):
                root = FST('x = [a, b, c]\ndef f(p):\n    return p * (q + 1)\n', 'exec')
                root.mark()
                lst = root.a.body[0].value
                if kind == 'reconcile-ok':
                    lst.elts.append(ast_.BinOp(left=ast_.Name(id='n', ctx=ast_.Load()), op=ast_.Add(), right=ast_.Constant(value=1)))
                    root.a.body[1].body[0].value.left = ast_.BoolOp(op=ast_.Or(), values=[ast_.Name(id='u', ctx=ast_.Load()), ast_.Name(id='v', ctx=ast_.Load())])
                elif kind == 'reconcile-fail-stmt-in-expr':
                    lst.elts[ctx.rnd.randrange(3)] = ast_.Pass()
                else:
                    root.a.body[1].body[0].value.right = ctx.rnd.choice([ast_.arguments(posonlyargs=[], args=[], kwonlyargs=[], kw_defaults=[], defaults=[]), ast_.Return(value=None), ast_.alias(name='zz')])
                root.reconcile()
            elif kind == 'sub':
                FST('a = f(b) + c\n', 'exec').sub(M.MName(ctx=ast_.Load), 'log(__FST_)', pars=ctx.rnd.choice([True, 'auto']), trivia=False)
            elif kind == 'sub-fail':
                FST('a = f(b) + c\n', 'exec').sub(M.MName(ctx=ast_.Load), 'pass', coerce=False)
            elif kind == 'as-ok':
                FST('a, b', 'Tuple').as_(ctx.rnd.choice(['List', 'Set', 'pattern', '_aliases']), norm=ctx.rnd.choice([True, False]))
            elif kind == 'as-fail':
                FST('a + b', 'expr').as_(ctx.rnd.choice(['alias', 'arg', 'keyword', 'withitem' if False else 'ExceptHandler']), pars=True)
            elif kind == 'parse-fail':
                FST('a b', ctx.rnd.choice(['expr', 'exec', 'pattern', 'arguments']))
            elif kind == 'put-fail':
                FST('x = [a, b]\n', 'exec').body[0].value.elts[0].replace('pass', norm=True, trivia='all', pars=False)
            elif kind == 'docstr':
                FST('def f():\n    pass\n', 'exec').body[0].put_docstr('text', docstr='strict')
            else:
                list(FST('a = f(b) + c\n', 'exec').search(M.MName))
        except Exception as e:
            out = 'raised'
        after, pa = freeze(FST.get_options()), probe(FST)
        ctx.count('api_isolation_checks')
        ctx.count('per_call_isolation_checks')
        ctx.evaluations += 1
        ctx.cell('api', kind, out, 'ambient' if amb else 'defaults')
        case = {'part': 'api', 'kind': kind, 'ambient': {k: repr(v) for k, v in amb.items()}}
        if after != before:
            ctx.violation(f'api-call-changed-thread-defaults:{kind.split("-")[0]}:{out}', f'{kind} {out} under ambient {amb}: defaults changed {dict(set(after) - set(before))}', case)
        elif pa != pb:
            ctx.violation(f'api-call-changed-default-driven-behaviour:{kind.split("-")[0]}:{out}', f'{kind} {out} under ambient {amb}: probe before {pb} after {pa}', case)
        FST.set_options(**defaults)


# ----------------------------------------------------------------------------------------------------------------------
# (iv) threads

SCRIPT_SRC = 'x = [a, (b), c * (d + e)]\nif x:\n    y = 1  # c\nelse:\n    z = 2\ndef f(p, q=1):\n    """doc"""\n    return p + q\n'


SCRIPT_SRC3 = 'call(*not a, b, *c or d, k=v)\nclass K(*not a, m=b): pass\nr = (w := 1), [(v := 2)]\n# lead\ns = 1  # trail\n\n# post\nt = [\n    i,  # ci\n    j,\n]\n'


def script(FST, seed, out, nsteps, log):
    import random
    r = random.Random(seed)
    start = freeze(FST.get_options())
    tr = [('start', start)]
    FST.set_options(pars=r.choice([True, 'auto', False]), pep8space=r.choice([True, 1, False]), trivia=r.choice([True, False, 'all', 'block']), norm=r.choice([False, True]),
                    pars_arglike=r.choice([True, False, None]), pars_walrus=r.choice([True, False, None]), norm_get=r.choice([True, False]), docstr=r.choice([True, False, 'strict']))
    trees = [FST(SCRIPT_SRC, 'exec'), FST('q = {k: v, **w}\nwhile q:\n    q.pop()\n', 'exec'), FST(SCRIPT_SRC3, 'exec')]
    for i in range(nsteps):
        f = trees[i % 3]
        try:
            res = None
            with FST.options(elif_=r.choice([True, False]), raw=False):
                k = r.randrange(7)
                if i % 3 == 0:
                    lst = f.body[0].value
                    if k == 0:
                        lst.elts[r.randrange(len(lst.elts))].replace(r.choice(['n1', '(n2)', 'p + q', '[r, s]', 'lambda: 0']))
                    elif k == 1:
                        lst.append(r.choice(['t', 'u * v', 'x if y else z']))
                    elif k == 2 and len(lst.elts) > 1:
                        lst.elts[0].remove()
                    elif k == 3:
                        f.body.append(r.choice(['def g(): pass', 'w = 3', 'if a:\n    b']), pep8space=r.choice([True, False]))
                    elif k == 4:
                        f.body[-1].put_line_comment(r.choice(['cm', None, 'é']))
                    elif k == 5 and len(f.body) > 3:
                        f.body[-1].remove(trivia=r.choice([True, False]))
                    else:
                        f.body[1].orelse.append('zz = 3') if f.body[1].is_If else None
                elif i % 3 == 1:
                    d = f.body[0].value
                    if k < 3:
                        d.put_slice('{n: m}', 0, 0, '_all')
                    elif k < 5 and len(d.keys) > 1:
                        d.put_slice(None, 0, 1, '_all')
                    else:
                        f.body[1].body.append(r.choice(['q.clear()', 'pass']))
                else:  # results that depend on the thread's DEFAULT options only (nothing passed per call)
                    call = f.body[0].value
                    if k == 0:
                        res = call.get_slice(0, 2, 'args').src
                    elif k == 1:
                        res = f.body[1].get_slice(0, 1, 'bases').src
                    elif k == 2:
                        res = f.body[2].value.elts[0].copy().src + '|' + f.body[2].value.elts[1].elts[0].copy().src
                    elif k == 3:
                        res = f.body[3].copy().src
                    elif k == 4:
                        res = f.body[4].value.get_slice(0, 1).src
                    elif k == 5:
                        call.put_slice('*not z, y', 1, 2, 'args')
                    else:
                        res = f.body[0].copy().value.args[0].copy().src
            tr.append(('ok', hash(f.src), res, freeze(FST.get_options())))
        except Exception as e:
            tr.append(('exc', type(e).__name__, str(e)[:40], freeze(FST.get_options())))
    tr.append(('final', tuple(t.src for t in trees)))
    out.append(tr)


def run_threads(ctx, FST, rounds):
    import sys
    import threading
    import time
    import types
    import random
    from fst import fst_options, fst_core
    mon = sys.monitoring
    TOOL = 3
    log = []
    yrnd = random.Random(ctx.seed * 31 + ctx.shard)

    def on_line(code, line):
        log.append((threading.get_ident(), code.co_name))
        if yrnd.random() < 0.5:
            time.sleep(0)
    try:
        mon.use_tool_id(TOOL, 'pfstmon')
    except ValueError:
        pass
    mon.register_callback(TOOL, mon.events.LINE, on_line)
    codes = []
    for name, obj in vars(fst_options).items():
        f = getattr(obj, '__func__', obj)
        if isinstance(f, types.FunctionType):
            codes.append(f.__code__)
        w = getattr(f, '__wrapped__', None)
        if isinstance(w, types.FunctionType):
            codes.append(w.__code__)
    for name in ('enter', 'success', 'fail', '__enter__', '__exit__'):
        fn = getattr(fst_core._Modifying, name, None)
        if fn is not None:
            codes.append(fn.__code__)
    for c in codes:
        mon.set_local_events(TOOL, c, mon.events.LINE)
    old_si = sys.getswitchinterval()
    sys.setswitchinterval(1e-6)
    defaults_dict = FST.get_options()
    defaults = freeze(defaults_dict)
    try:
        for rd in range(rounds):
            if ctx.out_of_time():
                break
            K = ctx.rnd.choice([2, 4, 8, 16])
            nsteps = ctx.rnd.choice([n for n in (40, 80, 150) if n * K <= 640])   # bounded work per round: a round is not interruptible by the time budget
            seeds = [ctx.rnd.getrandbits(30) for _ in range(K)]
            # alone (each in a fresh thread, sequentially) - monitoring off to get the plain reference
            alone = {}
            for c in codes:
                mon.set_local_events(TOOL, c, 0)
            for s in seeds:
                o = []
                t = threading.Thread(target=script, args=(FST, s, o, nsteps, None))
                t.start()
                t.join()
                alone[s] = o[0] if o else None
            # the same scripts in the MAIN thread (whose thread-local is the one that existed at import time)
            alone_main = {}
            for s in seeds:
                o = []
                saved = FST.get_options()
                try:
                    script(FST, s, o, nsteps, None)
                finally:
                    FST.set_options(**saved)
                alone_main[s] = o[0] if o else None
            for c in codes:
                mon.set_local_events(TOOL, c, mon.events.LINE)
            outs = {s: [] for s in seeds}
            ths = [threading.Thread(target=script, args=(FST, s, outs[s], nsteps, log)) for s in seeds]
            log.clear()
            # the main thread changes ITS defaults meanwhile: must not leak into workers
            FST.set_options(pars=False, trivia='all+3', pars_arglike=False, pars_walrus=False, norm=True, norm_get=False, docstr=False)
            for t in ths:
                t.start()
            for t in ths:
                t.join(timeout=120)
            FST.set_options(**dict(defaults_dict))
            stuck = [t for t in ths if t.is_alive()]
            if stuck:
                ctx.notes.append('INCONCLUSIVE: thread script did not finish within 120 s')
                return
            sw = sum(1 for a, b in zip(log, log[1:]) if a[0] != b[0])
            inside = set()
            overlaps = 0
            for tid, name in log:
                if name == 'enter':
                    inside.add(tid)
                elif name in ('success', 'fail'):
                    inside.discard(tid)
                if len(inside) > 1:
                    overlaps += 1
            ctx.count('cross_thread_switches_at_hooks', sw)
            ctx.count('events_with_several_threads_inside_Modifying', overlaps)
            ctx.count('hook_events', len(log))
            ctx.cell('threads', K, 'overlap' if overlaps else 'no-overlap', nsteps)
            for s in seeds:
                ctx.count('thread_transcripts_compared')
                ctx.evaluations += 1
                a, c_ = alone[s], (outs[s][0] if outs[s] else None)
                case = {'part': 'threads', 'K': K, 'nsteps': nsteps, 'seed': s}
                if a is None or c_ is None:
                    ctx.violation('thread-script-died', f'K={K} script seed {s} produced no transcript (alone={a is not None}, concurrent={c_ is not None})', case)
                    continue
                if c_[0][1] != defaults:
                    ctx.violation('new-thread-does-not-start-from-module-defaults', f'K={K}: a fresh thread started with options {dict(set(c_[0][1]) - set(defaults))} differing from the module defaults', case)
                m_ = alone_main[s]
                if m_ is not None and a != m_:
                    i = next((i for i, (x, y) in enumerate(zip(a, m_)) if x != y), min(len(a), len(m_)))
                    ctx.violation('worker-thread-transcript-differs-from-main-thread', f'K={K} nsteps={nsteps} script seed {s}: step {i} in a worker thread={str(a[i])[:200]} in the main thread={str(m_[i])[:200]}', case)
                if a != c_:
                    i = next((i for i, (x, y) in enumerate(zip(a, c_)) if x != y), min(len(a), len(c_)))
                    ctx.violation('concurrent-transcript-differs-from-alone', f'K={K} nsteps={nsteps} script seed {s}: step {i} alone={str(a[i])[:200]} concurrent={str(c_[i])[:200]}', case)
            if fst_core._MODIFYING:
                ctx.violation('modification-registry-not-empty-when-idle', f'_MODIFYING has {len(fst_core._MODIFYING)} entries after all threads finished', {'part': 'threads'})
                fst_core._MODIFYING.clear()
            if len(ctx.samples) < 3:
                ctx.sample({'part': 'threads', 'K': K, 'nsteps': nsteps, 'hook_events': len(log), 'cross_thread_switches': sw, 'events_with_overlap': overlaps})
    finally:
        sys.setswitchinterval(old_si)
        for c in codes:
            mon.set_local_events(TOOL, c, 0)
        mon.register_callback(TOOL, mon.events.LINE, None)
        try:
            mon.free_tool_id(TOOL)
        except Exception:
            pass


def run(ctx):
    from fst import FST
    q = 1 if ctx.tier == 'quick' else 10
    while not ctx.out_of_time():
        run_nesting(ctx, FST, 150 * q)
        run_invalid(ctx, FST, 150 * q)
        run_per_call(ctx, FST, 10 * q)
        run_api_isolation(ctx, FST, 60 * q)
        run_threads(ctx, FST, 2 * q)


def replay(ctx, case):
    from fst import FST
    print('C20 cases are regenerated from the shard seed; recorded case:', case)
