"""C08 - putting back what was taken restores the tree; accessors read back writes."""

import ast
import re

META = {
    'level': 'exploration',
    'rule': ('(A) per window, sampled nodes: replace(node.copy()), replace(node.copy_ast()), replace(node.own_src()), replace(node.copy().src), cut + put back at the same '
             'place (single elements via insert, slices via get_slice(cut)/put_slice) must leave ast.dump (contexts normalised, docstrings modulo re-indentation) of the whole '
             'tree unchanged and the tree in sync with its source (C01 oracle); own_src() must parse back (CPython embedding) to the node\'s structure; each round trip is '
             'repeated to detect drift (text after the 2nd trip == after the 1st). (B) put_docstr(t) on def/async def/class/Module hosts of varied layout for texts over a '
             'hostile alphabet (quotes, triple quotes, backslashes, \\N{..}, control chars, non-ASCII, astral, empty, multi-line), first line not starting with whitespace: '
             'get_docstr() == t, the parsed docstring value agrees modulo block indent, tree in sync. (C) put_line_comment(c)/get_line_comment() on simple statements, block '
             'headers, orelse/finalbody, full both ways, None deletes. A cell is (round-trip kind, node class) / (accessor, host, alphabet classes in the text). After put_line_comment the statement and every enclosing block must report the same own_src()/bloc as a fresh parse of the new text (their answers were read, hence cached, before the write).'),
    'budget': {'quick': 45, 'thorough': 900},
    'floors': {'quick': {'comment_enclosing_source_readbacks': 4000, 'round_trips': 8000, 'docstr_roundtrips': 5000, 'comment_roundtrips': 1200, 'own_src_parsed': 2500},
               'thorough': {'comment_enclosing_source_readbacks': 25000, 'round_trips': 200000, 'docstr_roundtrips': 200000, 'comment_roundtrips': 25000, 'own_src_parsed': 60000}},
    'assumptions': ['docstring read-back is claimed only for texts whose first line does not start with whitespace (property restriction)',
                    'comment read-back (full=False) is claimed for texts without leading/trailing whitespace, newline or leading "#"'],
    'shares_c01_oracle': True,
    'technique': 'runtime monitoring: recorded round-trip histories checked against the original structure; accessor write/read pairs',
}

ALPH = ['a', 'b', ' ', '\n', '\n\n', '"', "'", '"""', "'''", '\\', '\\n', '\\"', '\t', '\x00', '\x7f', '\r', 'é', '蟒', '\U0001d518', '{', '}', '\\N{DASH}', '\\x41', '  ', '#', '\\\n', '\x0c', '\x1b',
        '\u2028', '\x85', 'x', '%s', '\\\\', '"' * 4, "\\'", '\x01', '\ufeff', '\n    indented', 'end"', "end'", 'end\\']
HOSTS = ['def f(): pass', 'def f():\n    pass', 'class C:\n\tx = 1', 'async def f():\n  """old"""\n  return 1', '', 'x = 1\n', 'def f():\n    # c\n    pass', 'class C:\n    def m(self):\n        "old"\n        pass',
         'def f():\n    """old\n    multi\n    """\n', 'class C: pass', 'def f(): return 1  # c', '"""module doc"""\nx = 1', '# leading comment\nx = 1', 'def f():\n\n    # c\n\n    pass\n', "def f():\n    r'''raw old'''\n    pass",
         'if 1:\n    class D:\n        def g(self): pass', 'def é():\n    "ü"\n    return é']
CTX_RE = re.compile(r', ctx=(Load|Store|Del)\(\)')


def Sn(a):
    from .c07 import Sn as sn
    return sn(a)


def run_roundtrips(ctx, FST, src, label, rnd, n_targets, only=None):
    from .. import edits, embed
    from ..base import insync, short, refparse
    base, _ = refparse(src)
    if base is None:
        return
    idx = edits.index_tree(base)
    rnd.shuffle(idx)
    orig = Sn(base)
    in_f = set()
    for n in ast.walk(base):
        if isinstance(n, (ast.JoinedStr, ast.FormattedValue)) or type(n).__name__ in ('TemplateStr', 'Interpolation'):
            for c in ast.walk(n):
                if c is not n:
                    in_f.add(id(c))
    done = 0
    for node, parent, field, i, path in idx:
        if done >= n_targets or ctx.out_of_time():
            break
        if id(node) in in_f or isinstance(node, (ast.expr_context, ast.operator, ast.unaryop, ast.boolop, ast.cmpop)):
            continue
        cls = type(node).__name__
        kinds = ['copy', 'copy_ast', 'own_src', 'copy_src', 'cut_put']
        kind = rnd.choice(kinds)
        variant = rnd.choice(['single', 'slice1', 'slice2'])
        if only is not None:
            if [list(p) for p in path] != [list(p) for p in only['path']]:
                continue
            kind, variant = only['kind'], only.get('variant', variant)
        root = FST(src, 'exec')
        t = edits.resolve(root.a, path).f
        case = {'part': 'A', 'src': src, 'path': path, 'kind': kind, 'variant': variant, 'label': label}
        texts = []
        try:
            for rep in range(2):
                t = edits.resolve(root.a, path).f
                if kind == 'copy':
                    t.replace(t.copy())
                elif kind == 'copy_ast':
                    t.replace(t.copy_ast())
                elif kind == 'own_src':
                    t.replace(t.own_src())
                elif kind == 'copy_src':
                    t.replace(t.copy().src)
                else:
                    par, pf = t.parent, t.pfield
                    if pf.idx is None:
                        x = t.copy()
                        par.put(x, field=pf.name)
                    elif variant == 'single':
                        x = t.cut()
                        par.insert(x, pf.idx, pf.name)
                    else:
                        n = 1 if variant == 'slice1' else 2
                        x = par.get_slice(pf.idx, pf.idx + n, pf.name, cut=True)
                        par.put_slice(x, pf.idx, pf.idx, pf.name)
                texts.append(root.src)
        except NotImplementedError:
            ctx.count('not_implemented(documented)')
            continue
        except Exception as e:
            if 'not implemented' in str(e).lower():
                ctx.count('not_implemented(documented)')
            else:
                ctx.count('roundtrip_refused:' + type(e).__name__)
                ctx.cell('refused', kind, cls)
                if kind in ('copy', 'copy_ast') and not isinstance(e, (ValueError,)):
                    ctx.violation(f'self-replacement-refused:{kind}:{cls}', f'{cls}.replace(its own {kind}) raised {type(e).__name__}: {short(str(e), 120)}; node={short(ast.get_source_segment(src, node) or "", 80)!r}', case)
            continue
        done += 1
        ctx.count('round_trips')
        ctx.evaluations += 1
        ctx.cell(kind, cls)
        now = Sn(root.a)
        if now != orig and any(isinstance(x, ast.Constant) and isinstance(x.value, str) and '\\\n' in (ast.get_source_segment(src, x) or '') for x in ast.walk(node)):
            ctx.violation('docstring-dedent-alters-value-after-backslash-continuation', f'{kind} round trip of {cls}: docstring with a backslash-continuation line changes VALUE', case)
            continue
        if now != orig:
            ctx.violation(f'round-trip-changes-structure:{kind}', f'{kind} round trip of {cls} {short(ast.get_source_segment(src, node) or "", 80)!r} changed the tree structure; src now {short(root.src, 200)!r}', case)
            continue
        ok, detail = insync(root)
        if ok is False and kind == 'cut_put' and isinstance(parent, (ast.Call, ast.ClassDef)) and field in ('args', 'bases') and getattr(parent, 'keywords', None):
            ctx.violation('positional-after-keyword-accepted', f'cut + insert of a positional argument at its old index of args lands after a keyword in source order; src={short(root.src, 200)!r}', case)
            continue
        if ok is False:
            ctx.violation(f'round-trip-desync:{kind}', f'{kind} round trip of {cls}: source and tree out of sync ({detail}); src={short(root.src, 200)!r}', case)
            continue
        if len(texts) == 2 and texts[0] != texts[1]:
            ctx.count('text_drift_between_trips(info: formatting is C04, structure is what C08 claims)')
        # own_src parses back to the node
        if rnd.random() < 0.5 and isinstance(node, (ast.expr, ast.stmt, ast.pattern, ast.arg, ast.keyword, ast.alias, ast.withitem, ast.comprehension, ast.ExceptHandler, ast.match_case, ast.arguments)):
            r2 = FST(src, 'exec')
            t2 = edits.resolve(r2.a, path).f
            try:
                os_ = t2.own_src()
            except Exception as e:
                ctx.violation('own_src-raised', f'{cls}.own_src() raised {type(e).__name__}: {e}', case)
                continue
            mode = embed.mode_for_root(node)
            if isinstance(node, ast.arguments) and isinstance(parent, ast.Lambda):
                mode = 'arguments_lambda'
            if mode:
                st, r = embed.ref(mode, os_)
                if st == 'unsupported':
                    ctx.count('own_src_embedding_unsupported')
                elif st.startswith('invalid'):
                    ctx.violation(f'own_src-does-not-parse:{cls}', f'{cls}.own_src() = {short(os_, 160)!r} is rejected by CPython in the {mode!r} embedding', case)
                else:
                    ctx.count('own_src_parsed')
                    rr = r if not isinstance(r, list) else None
                    if rr is not None and not isinstance(rr, (ast.boolop, ast.operator, ast.unaryop, ast.cmpop)) and Sn(rr) != Sn(node) and \
                            any(isinstance(x, ast.Constant) and isinstance(x.value, str) and '\\\n' in (ast.get_source_segment(src, x) or '') for x in ast.walk(node)):
                        ctx.violation('docstring-dedent-alters-value-after-backslash-continuation', f'{cls}.own_src(): a docstring line ending in a backslash continuation is re-indented and the string VALUE changes', case)
                    elif rr is not None and not isinstance(rr, (ast.boolop, ast.operator, ast.unaryop, ast.cmpop)) and Sn(rr) != Sn(node):
                        ctx.violation(f'own_src-parses-to-other-structure:{cls}', f'{cls}.own_src() = {short(os_, 160)!r} parses to {short(Sn(rr), 160)} not {short(Sn(node), 160)}', case)


def gen_text(rnd):
    for _ in range(20):
        t = ''.join(rnd.choice(ALPH) for _ in range(rnd.randint(0, 8)))
        if not t[:1].isspace() and not (t[:1] in ('\x0c', '\x1b', '\u2028', '\x85', '\ufeff', '\x00', '\x01', '\x7f') and t[:1].isspace()):
            return t
    return 'x'


def classes_of(t):
    cl = set()
    for ch, name in (('"', 'dq'), ("'", 'sq'), ('\\', 'bs'), ('\n', 'nl'), ('\r', 'cr'), ('\x00', 'nul'), ('\t', 'tab')):
        if ch in t:
            cl.add(name)
    if any(ord(c) > 127 for c in t):
        cl.add('nonascii')
    if not t:
        cl.add('empty')
    if t.endswith(('"', "'", '\\')):
        cl.add('end-special')
    return '+'.join(sorted(cl)) or 'plain'


def run_docstr(ctx, FST, rnd, n):
    from ..base import insync, short, refparse
    for _ in range(n):
        if ctx.out_of_time():
            return
        t = gen_text(rnd)
        host = rnd.choice(HOSTS)
        root = FST(host, 'exec')
        tgt = root
        defs = [n.f for n in ast.walk(root.a) if isinstance(n, (ast.FunctionDef, ast.AsyncFunctionDef, ast.ClassDef))]
        if defs and rnd.random() < 0.8:
            tgt = rnd.choice(defs)
        opts = rnd.choice([{'norm': True}, {}, {'norm': True, 'docstr': 'strict'}, {'pep8space': False}])
        reput = rnd.random() < 0.2
        case = {'part': 'B', 'host': host, 'text': t, 'target': type(tgt.a).__name__, 'opts': opts, 'reput': reput}
        try:
            tgt.put_docstr(t, reput, **opts)
        except Exception as e:
            ctx.violation(f'put_docstr-raised:{type(e).__name__}', f'put_docstr({t!r}) on {type(tgt.a).__name__} of {host!r} raised {type(e).__name__}: {short(str(e), 120)}', case)
            continue
        ctx.count('docstr_roundtrips')
        ctx.evaluations += 1
        ctx.cell('docstr', type(tgt.a).__name__, classes_of(t))
        ok, detail = insync(root)
        if ok is False:
            ctx.violation(f'put_docstr-desync:{detail}', f'put_docstr({t!r}) on {host!r}: source/tree out of sync ({detail}); src={short(root.src, 200)!r}', case)
            continue
        got = tgt.get_docstr()
        if got != t:
            ctx.violation('docstring-not-read-back', f'put_docstr({t!r}) then get_docstr() = {got!r}; host {host!r}; src={short(root.src, 200)!r}', case)
            continue
        # value per CPython: modulo the block indent of continuation lines
        ref, _ = refparse(root.src)
        if ref is not None:
            tn = ref if isinstance(tgt.a, ast.Module) else next((n for n in ast.walk(ref) if type(n) is type(tgt.a) and getattr(n, 'name', None) == getattr(tgt.a, 'name', None) and n.lineno == tgt.a.lineno), None)
            if tn is not None:
                raw = ast.get_docstring(tn, clean=False)
                if raw is None or '\n'.join(l.lstrip(' \t') if i else l for i, l in enumerate(raw.split('\n'))) != '\n'.join(l.lstrip(' \t') if i else l for i, l in enumerate(t.replace('\r\n', '\n').replace('\r', '\n').split('\n'))):
                    ctx.count('docstr_value_differs_beyond_indent(info)')
                else:
                    ctx.count('docstr_value_agrees_with_cpython')
        # delete again
        if rnd.random() < 0.2:
            try:
                tgt.put_docstr(None)
                if tgt.get_docstr() is not None and not (tgt.a.body and isinstance(tgt.a.body[0], ast.Expr)):
                    ctx.violation('docstring-not-deleted', f'put_docstr(None) left get_docstr() = {tgt.get_docstr()!r}', case)
            except Exception:
                ctx.count('docstr_delete_refused')
    if len(ctx.samples) < 3:
        ctx.sample({'part': 'docstr', 'last_text': t, 'last_host': host})


COMMENTS = ['cm', 'a much longer comment text', 'é蟒', 'x' * 60, 'type: ignore', 'TODO: fix', 'c # nested', 'tab\there', '"quoted"', "it's", 'back\\slash', 'trailing\\', '!', ':', 'noqa: E501', '{}', '%s', '\U0001d518']


def run_comments(ctx, FST, rnd, src, label):
    from .. import edits
    from ..base import insync, short, refparse
    base, _ = refparse(src)
    if base is None:
        return
    try:
        root = FST(src, 'exec')
    except Exception:
        return
    stmts = [n for n in ast.walk(root.a) if isinstance(n, ast.stmt)]
    rnd.shuffle(stmts)
    for n in stmts[:10]:
        if ctx.out_of_time():
            return
        f = n.f
        fields = [None]
        for fld in ('orelse', 'finalbody'):
            if getattr(n, fld, None):
                fields.append(fld)
        fld = rnd.choice(fields)
        full = rnd.random() < 0.3
        c = rnd.choice(COMMENTS)
        put = ('  # ' + c + rnd.choice(['', ' ', '  '])) if full else c
        case = {'part': 'C', 'src': root.src, 'stmt': type(n).__name__, 'field': fld, 'full': full, 'comment': put, 'label': label}
        before_s = ast.dump(root.a)
        ancestors = []
        p_ = f
        while p_ is not None:   # read everything an enclosing node reports about its own text BEFORE the write (these answers are cached by the library)
            try:
                p_.loc, p_.bloc, p_.own_src()
            except Exception:
                pass
            ancestors.append(p_)
            p_ = p_.parent
        try:
            old = f.put_line_comment(put, fld, full)
            got = f.get_line_comment(fld, full)
        except Exception as e:
            ctx.count('comment_accessor_raised:' + type(e).__name__)
            if not isinstance(e, (ValueError, NotImplementedError)):
                ctx.violation(f'line-comment-accessor-raised:{type(e).__name__}', f'put_line_comment({put!r}, {fld!r}, {full}) on {type(n).__name__} raised {type(e).__name__}: {e}', case)
            continue
        ctx.count('comment_roundtrips')
        ctx.evaluations += 1
        ctx.cell('comment', type(n).__name__, fld, full)
        if got != put:
            ctx.violation('line-comment-not-read-back', f'put_line_comment({put!r}, {fld!r}, full={full}) on {type(n).__name__} then get = {got!r}; line={short(root.src, 200)!r}', case)
            continue
        if ast.dump(root.a) != before_s:
            ctx.violation('line-comment-put-changed-structure', f'put_line_comment on {type(n).__name__} changed the tree structure', case)
            continue
        ok, detail = insync(root)
        if ok is False:
            ctx.violation(f'line-comment-put-desync:{detail}', f'put_line_comment({put!r}, {fld!r}, full={full}) on {type(n).__name__}: out of sync ({detail}); src={short(root.src, 200)!r}', case)
            return
        # what the statement and every enclosing block report as their own source afterwards == what a fresh parse of the new text reports
        try:
            fresh = FST(root.src, 'exec', indent=root.indent)
            for anc in ancestors:
                if anc.a is None or anc is root:
                    continue
                twin = fresh.child_from_path(root.child_path(anc))
                if (anc.own_src(), tuple(anc.bloc)) != (twin.own_src(), tuple(twin.bloc)):
                    ctx.violation('line-comment-put-leaves-stale-enclosing-source', f'after put_line_comment({put!r}, {fld!r}, full={full}) the enclosing {type(anc.a).__name__} reports own_src/bloc {short(anc.own_src(), 80)!r} {tuple(anc.bloc)}; '
                                  f'a fresh parse of the same text reports {short(twin.own_src(), 80)!r} {tuple(twin.bloc)}', case)
                    return
            ctx.count('comment_enclosing_source_readbacks', len(ancestors))
        except Exception as e:
            ctx.count('comment_enclosing_readback_not_possible:' + type(e).__name__)
        # the comment text really is in the source as a COMMENT token
        from ..base import comment_multiset
        cm = comment_multiset(root.src)
        if cm is not None and not any(c in k for k in cm):
            ctx.violation('line-comment-not-in-source', f'comment {c!r} not present as a COMMENT token after put; src={short(root.src, 200)!r}', case)
        if rnd.random() < 0.3:
            f.put_line_comment(None, fld)
            if f.get_line_comment(fld) is not None:
                ctx.violation('line-comment-not-deleted', f'put_line_comment(None) left {f.get_line_comment(fld)!r}', case)
            ok, detail = insync(root)
            if ok is False:
                ctx.violation(f'line-comment-delete-desync:{detail}', f'deleting the line comment of {type(n).__name__} left the tree out of sync; src={short(root.src, 200)!r}', case)
                return


def run(ctx):
    from fst import FST
    from .. import corpus
    while not ctx.out_of_time():
        r = ctx.rnd.random()
        if r < 0.2:
            run_docstr(ctx, FST, ctx.rnd, 150)
            continue
        if ctx.rnd.random() < 0.25:
            label, src = 'GRAMMAR', ctx.rnd.choice(corpus.GRAMMAR_PROGRAMS)
        else:
            label, src = corpus.window(ctx.rnd, max_len=1800)
        if ctx.rnd.random() < 0.5:
            src, _ = corpus.relayout(src, ctx.rnd, kinds=['comments', 'comment_lines', 'parens', 'semicolons', 'tabs', 'unicode'] + (['continuation'] if ctx.rnd.random() < 0.3 else []), n=2)
        if r < 0.4:
            run_comments(ctx, FST, ctx.rnd, src, label)
        else:
            run_roundtrips(ctx, FST, src, label, ctx.rnd, 20 if ctx.tier == 'quick' else 80)
            if len(ctx.samples) < 5:
                ctx.sample({'part': 'roundtrip', 'window': label, 'src': src[:120]})


def replay(ctx, case):
    from fst import FST
    import random
    if case.get('part') == 'A':
        for variant in ([case['variant']] if case.get('variant') else ['single', 'slice1', 'slice2']):
            run_roundtrips(ctx, FST, case['src'], 'replay', random.Random(0), 10 ** 6, only=dict(case, variant=variant))
    elif case.get('part') == 'B':
        root = FST(case['host'], 'exec')
        tgt = root
        defs = [n.f for n in ast.walk(root.a) if type(n).__name__ == case['target']]
        tgt = defs[0] if defs else root
        tgt.put_docstr(case['text'], case.get('reput', False), **case.get('opts', {}))
        print(repr(root.src), repr(tgt.get_docstr()))
        if tgt.get_docstr() != case['text']:
            ctx.violation('docstring-not-read-back', 'replayed', case)
    elif case.get('part') == 'C':
        run_comments(ctx, FST, random.Random(0), case['src'], 'replay')
