"""C06 - every reported location denotes exactly the text of its node."""

import ast
import io
import tokenize

META = {
    'level': 'exploration',
    'rule': ('per program (REAL windows, LAYOUT variants with multi-byte text before/inside/after nodes, GRAMMAR + parenthesization table): for every node with a location: '
             'loc starts at a token start and ends at a token end; nodes with ast positions: loc == reference positions converted bytes->chars by the monitor, and '
             'lineno/col_offset/end_* on FST == the byte conversion of loc; operators: the tokens at loc spell exactly the operator and lie between the operands; '
             'comprehension starts at for/async, match_case at case, decorated defs bloc starts at the first "@"; children inside parents, siblings ordered without overlap; '
             'pars(): the count must equal the number of enclosing ( ) pairs that the PARSER judges to be redundant grouping parentheses (replace the pair interior by _x_: '
             'source with the pair kept and with it dropped must parse to the same structure); find_in_loc / find_contains_loc(True/False/"top") / find_loc compared with a '
             'brute-force scan over all nodes for rectangles from all token boundaries (+ random off-token ones). A cell is (check, node class, layout class). Searches are started from the root and from sampled non-root nodes (brute force restricted to the start node\'s subtree); rectangles include those sharing the start and end COLUMN of a multi-line node on a different line; find_loc without an exact match must return the find_in_loc answer if there is one, else the find_contains_loc answer (documented preference). Every location clause is also evaluated on LIVE trees after 1-3 random structured edits (location caches primed first; REAL windows and the GRAMMAR programs): when the edited tree is structurally in sync with its source, the loc of each node must equal the positions of an independent CPython parse of the current source and lie on token boundaries (a stale cached or incrementally offset location is a violation here as well as under C01/C02); a pars() probe whose substituted text CPython rejects is inconclusive and not judged.'),
    'budget': {'quick': 45, 'thorough': 900},
    'floors': {'quick': {'edited_trees_judged': 400, 'search_start_nodes_below_root': 2500, 'nodes_located': 60000, 'pars_judged': 10000, 'search_rects': 30000, 'operators_checked': 1500},
               'thorough': {'search_start_nodes_below_root': 15000, 'nodes_located': 1500000, 'pars_judged': 250000, 'search_rects': 800000, 'operators_checked': 40000}},
    'assumptions': ['tokenize and ast positions of CPython are the reference', 'ownership of parentheses is decided by CPython\'s parser on a substituted source'],
    'technique': 'runtime monitoring: query-time oracle from tokenize/ast positions + brute-force search reference',
}

PAREN_TABLE = ['f((a))', 'f(a)', 'f((i for i in j))', 'f(i for i in j)', 'f(((i for i in j)))', 'with (a): pass', 'with (a) as b: pass', 'with (a as b): pass', 'with ((a), (b)): pass',
               'class C((B)): pass', 'class C(B): pass', 'from m import (x)', 'x = ((a, b))', 'x = (a, b)', 'x = ((a), b)', 'for (i) in (j): pass', 'del (a), ((b))', 'assert (a), (b)',
               'return ((a))', 'x = (yield)', 'x = ((yield a))', 'match (v):\n case (1): pass\n case ((a, b)): pass\n case C((x)): pass', 'lambda: (a)', 'a[(b)]', 'a[(b):(c)]', 'a[(b, c)]',
               '@(d)\ndef f(): pass', 'def f(a=(1)) -> (r): pass', 'x: (int) = (1)', '(a).b', '(a)(b)', '(a)[b]', '-(a)', '(a) if (b) else (c)', '[(a) for (b) in (c) if (d)]', '{(a): (b)}',
               '{**(a)}', 'f(*(a), **(b))', 'f(k=(v))', 'print((a), (b))', 'raise (E) from (c)', '(x := 1)', 'f((x := 1))', 'await (a)', 'f"{(a)}"', 'try: pass\nexcept (E): pass',
               'while (a): pass', 'if (a): pass\nelif ((b)): pass', '(\n a # c\n)', '( # c\n (a)\n )', 'é = ((ü)) + ("日本")', 'f((é), (  ü  ))', 'x = a - -b', 'x = not  not a', 'a <  b is  not c not  in d',
               'x = a if b else (c)', 'def f[K, V: (int, str)](a, b=(1)): pass', 'async def h[A: (int), B: (é, ü)](*, k=(1)) -> (r): pass', 'class C[T: (int, str), U: (x)](B[(T)], m=(n)): pass',
               'type X[T: (a, b), *Ts] = (list[(T)])', 'def g[*Ts, **P]( x , /, y=(2), *z, w=(3), **k ): pass', 'lambda a=(1), *b, c=(2), **d: (a)', 'with (a, b): pass', 'with (a, b) as c: pass', 'with ((a, b)): pass', 'f(a)(b)((c))', 'x = (\n    a +\n    (b)\n)', 'x = [(\n a\n)]']


def offs_table(lines):
    t = [0]
    for l in lines:
        t.append(t[-1] + len(l) + 1)
    return t


def run_program(ctx, FST, src, label, rnd, do_search=True, root=None, edited_case=None):
    from ..base import short, refparse
    base, _ = refparse(src)
    if base is None:
        return
    if root is None:
        try:
            root = FST(src, 'exec')
        except Exception:
            return
    lines = src.split('\n')
    ot = offs_table(lines)
    off = lambda ln, col: ot[ln] + col
    try:
        alltoks = list(tokenize.generate_tokens(io.StringIO(src).readline))
    except Exception:
        return
    toks = [t for t in alltoks if t.type not in (tokenize.NL, tokenize.NEWLINE, tokenize.COMMENT, tokenize.INDENT, tokenize.DEDENT, tokenize.ENDMARKER) and t.string != '']
    tstart = {off(t.start[0] - 1, t.start[1]) for t in toks}
    tend = {off(t.end[0] - 1, t.end[1]) for t in toks}
    tpos = [(off(t.start[0] - 1, t.start[1]), off(t.end[0] - 1, t.end[1]), t.string, t.type) for t in toks]
    # CPython's tokenizer mis-reports the end column of a multi-line token when multi-byte text precedes it on its first line:
    # ends of multi-line tokens are not used as reference
    ml_end_lines = {t.end[0] - 1 for t in toks if t.start[0] != t.end[0]}
    ctx.count('programs')
    mb = len(src) != len(src.encode())
    layout = 'mb' if mb else 'ascii'
    case = {'src': src if len(src) < 4000 else None, 'label': label}
    if edited_case:
        case = dict(edited_case, label=label)
        ctx.count('edited_trees_judged')
    in_f = set()
    for n in ast.walk(root.a):
        if isinstance(n, (ast.JoinedStr, ast.FormattedValue)) or type(n).__name__ in ('TemplateStr', 'Interpolation'):
            for c in ast.walk(n):
                in_f.add(id(c))
    nodes = list(root.walk(True))
    parent_of = {}
    for n in ast.walk(root.a):
        for c in ast.iter_child_nodes(n):
            parent_of[id(c)] = n

    def b2c(ln, b):
        return len(lines[ln].encode()[:b].decode())

    # a live (edited) tree is judged against the positions of an independent CPython parse of its current source (same structure:
    # the caller checked the C01 oracle); a freshly built tree's own ast positions ARE that parse (C05)
    twin = {id(x): y for x, y in zip(ast.walk(root.a), ast.walk(base))} if edited_case else {}

    for f in nodes:
        a = f.a
        loc = f.loc
        if loc is None:
            continue
        cls = type(a).__name__
        s0, s1 = off(loc.ln, loc.col), off(loc.end_ln, loc.end_col)
        ctx.count('nodes_located')
        ctx.evaluations += 1
        ctx.cell('loc', cls, layout)
        fstr = id(a) in in_f
        # (1) reference positions
        if hasattr(a, 'lineno') and not isinstance(a, ast.Module):
            ra = twin.get(id(a), a)
            want = (ra.lineno - 1, b2c(ra.lineno - 1, ra.col_offset), ra.end_lineno - 1, b2c(ra.end_lineno - 1, ra.end_col_offset))
            # reference positions come from an independent parse: same path in `base`
            if tuple(loc) != want:
                ctx.violation(f'loc-differs-from-ast-positions:{cls}', f'{label}: {cls} loc {tuple(loc)} != byte->char conversion of its ast positions {want}; text={short(f.src, 60)!r}', case)
            try:
                if (f.lineno, f.col_offset, f.end_lineno, f.end_col_offset) != (a.lineno, a.col_offset, a.end_lineno, a.end_col_offset):
                    ctx.violation('fst-byte-coordinates-differ', f'{label}: {cls} lineno/col_offset/end_* on FST {(f.lineno, f.col_offset, f.end_lineno, f.end_col_offset)} != ast', case)
            except Exception:
                pass
        else:
            # computed location: byte coordinates must agree with loc
            try:
                lin = (f.lineno, f.col_offset, f.end_lineno, f.end_col_offset)
                want = (loc.ln + 1, len(lines[loc.ln][:loc.col].encode()), loc.end_ln + 1, len(lines[loc.end_ln][:loc.end_col].encode()))
                if lin != want and not isinstance(a, ast.Module):
                    ctx.violation(f'byte-and-char-coordinates-disagree:{cls}', f'{label}: {cls} loc {tuple(loc)} but lineno/col_offset/end_* = {lin} (expected {want})', case)
                ctx.count('computed_locs_checked')
            except Exception:
                pass
        # token boundary rule (skip inside f-strings where tokens are FSTRING_MIDDLE pieces, and Module)
        if not fstr and not isinstance(a, (ast.Module, ast.JoinedStr, ast.arguments)) and type(a).__name__ != 'TemplateStr' and s1 > s0 and not isinstance(parent_of.get(id(a)), ast.AugAssign):
            if s1 not in tend and loc.end_ln in ml_end_lines:
                ctx.count('multiline_token_end_not_used_as_reference')
            elif s0 not in tstart or s1 not in tend:
                ctx.violation(f'loc-not-on-token-boundaries:{cls}', f'{label}: {cls} loc {tuple(loc)} text {short(src[s0:s1], 60)!r} does not start/end on token boundaries', case)
        # operators spell the operator
        if isinstance(a, (ast.operator, ast.unaryop, ast.cmpop)) or (isinstance(a, ast.boolop) and loc):
            text = ' '.join(src[s0:s1].replace('\\\n', ' ').split())
            spell = OPS.get(type(a))
            par = parent_of.get(id(a))
            if isinstance(par, ast.AugAssign):
                # the Add of `a += b`: pfst locates the operator proper; either '+' or '+=' denotes it
                ctx.count('augassign_operator_locs')
                if text.replace(' ', '') in (spell, spell + '='):
                    spell = text
            ctx.count('operators_checked')
            if spell is not None and text.replace(' ', '') != spell.replace(' ', '') and not fstr:
                ctx.violation(f'operator-loc-wrong-text:{cls}', f'{label}: {cls} loc {tuple(loc)} covers {src[s0:s1]!r}, expected {spell!r}; in {short(par.f.src if par and hasattr(par, "f") else "", 80)!r}', case)
            # between operands
            if isinstance(par, ast.BinOp) and hasattr(par.left, 'f'):
                l, r = par.left.f.pars(), par.right.f.pars()
                if not (tuple(l)[2:4] <= (loc.ln, loc.col) and (loc.end_ln, loc.end_col) <= tuple(r)[0:2]):
                    ctx.violation('operator-not-between-operands', f'{label}: BinOp operator at {tuple(loc)} not between operands {tuple(l)} and {tuple(r)}', case)
        if isinstance(a, ast.comprehension):
            first = src[s0:s0 + 5]
            if not (first.startswith('for') or first.startswith('async')):
                ctx.violation('comprehension-loc-not-at-for', f'{label}: comprehension loc {tuple(loc)} starts with {first!r}', case)
        if isinstance(a, ast.match_case) and not src[s0:s0 + 4] == 'case':
            ctx.violation('match_case-loc-not-at-case', f'{label}: match_case loc {tuple(loc)} starts with {src[s0:s0 + 6]!r}', case)
        if isinstance(a, (ast.FunctionDef, ast.AsyncFunctionDef, ast.ClassDef)):
            bl = f.bloc
            if a.decorator_list:
                b0 = off(bl.ln, bl.col)
                if src[b0] != '@':
                    ctx.violation('bloc-not-at-first-decorator', f'{label}: decorated {cls} bloc {tuple(bl)} starts with {src[b0:b0 + 5]!r}', case)
            elif tuple(bl)[0:2] != tuple(loc)[0:2]:
                ctx.violation('bloc-start-differs-from-loc', f'{label}: undecorated {cls} bloc {tuple(bl)} vs loc {tuple(loc)}', case)
        if isinstance(a, ast.arguments) and s1 > s0:
            par = parent_of.get(id(a))
            if isinstance(par, (ast.FunctionDef, ast.AsyncFunctionDef)):
                # span must lie strictly inside the def's parentheses and contain every arg
                kids = [c.f.loc for c in ast.walk(a) if isinstance(c, ast.arg)]
                if kids and not (tuple(loc)[0:2] <= min(tuple(k)[0:2] for k in kids) and max(tuple(k)[2:4] for k in kids) <= tuple(loc)[2:4]):
                    ctx.violation('arguments-loc-does-not-cover-args', f'{label}: arguments loc {tuple(loc)}', case)
                before = src[:s0].rstrip()
                after = src[s1:].lstrip()
                if not before.endswith('(') and not before.endswith('\\') or not (after.startswith(')') or after.startswith('#') or after.startswith('\\')):
                    ctx.violation('arguments-loc-not-between-delimiters', f'{label}: arguments text {short(src[s0:s1], 60)!r} not delimited by the def parentheses: ...{before[-10:]!r} | {after[:10]!r}', case)
        # children inside parents / sibling order
        kids = [c.f for c in ast.iter_child_nodes(a) if hasattr(c, 'f') and c.f.loc is not None and not isinstance(c, (ast.expr_context,))]
        kl = sorted((tuple(k.loc), type(k.a).__name__) for k in kids)
        if not isinstance(a, ast.Module) and not fstr and not isinstance(a, ast.JoinedStr):
            bl = tuple(f.bloc) if isinstance(a, (ast.FunctionDef, ast.AsyncFunctionDef, ast.ClassDef)) else tuple(loc)
            for (kloc, kname) in kl:
                if kloc[0:2] < bl[0:2] or kloc[2:4] > bl[2:4]:
                    ctx.violation(f'child-outside-parent:{cls}', f'{label}: {kname} {kloc} lies outside its parent {cls} {bl}', case)
            for (k1, n1), (k2, n2) in zip(kl, kl[1:]):
                if k1[2:4] > k2[0:2] and not (isinstance(a, ast.Dict) or n1 in ('Load', 'Store', 'Del')):
                    ctx.violation(f'siblings-overlap:{cls}', f'{label}: in {cls}: {n1} {k1} overlaps {n2} {k2}', case)
            ctx.count('containment_checked')
        # (2) pars ownership judged by the parser
        if (isinstance(a, ast.expr) or isinstance(a, ast.pattern)) and not fstr and not isinstance(a, (ast.Starred, ast.Slice)) and s1 > s0:
            if isinstance(a, ast.expr) and any(isinstance(parent_of.get(id(x)), ast.pattern) for x in [a]):
                continue
            if isinstance(parent_of.get(id(a)), ast.AnnAssign) and parent_of[id(a)].target is a:
                continue  # `(x): int` - the parentheses belong to the node but are not redundant (they clear AnnAssign.simple)
            judge_pars(ctx, f, src, s0, s1, tpos, label, case, cls, layout)
    if do_search:
        search_checks(ctx, root, nodes, src, toks, lines, rnd, label, case, parent_of, in_f)
    if len(ctx.samples) < 4:
        ctx.sample({'program': label, 'src': short(src, 120), 'nodes': len(nodes), 'tokens': len(toks)})


OPS = {ast.Add: '+', ast.Sub: '-', ast.Mult: '*', ast.MatMult: '@', ast.Div: '/', ast.Mod: '%', ast.Pow: '**', ast.LShift: '<<', ast.RShift: '>>', ast.BitOr: '|', ast.BitXor: '^',
       ast.BitAnd: '&', ast.FloorDiv: '//', ast.Invert: '~', ast.Not: 'not', ast.UAdd: '+', ast.USub: '-', ast.Eq: '==', ast.NotEq: '!=', ast.Lt: '<', ast.LtE: '<=', ast.Gt: '>',
       ast.GtE: '>=', ast.Is: 'is', ast.IsNot: 'is not', ast.In: 'in', ast.NotIn: 'not in', ast.And: 'and', ast.Or: 'or'}


def judge_pars(ctx, f, src, s0, s1, tpos, label, case, cls, layout):
    from ..base import short
    li = max((i for i, t in enumerate(tpos) if t[1] <= s0), default=-1)
    ri = min((i for i, t in enumerate(tpos) if t[0] >= s1), default=len(tpos))
    cands = []
    while li >= 0 and ri < len(tpos) and tpos[li][2] == '(' and tpos[ri][2] == ')':
        cands.append((tpos[li][0], tpos[ri][1]))
        li -= 1
        ri += 1

    def with_sub(k, keep):
        # interior of pair k (k=0: the node itself) replaced by _x_; pair k kept or dropped
        a0, a1 = (s0, s1) if k == 0 else (cands[k - 1][0], cands[k - 1][1])
        if keep:
            return src[:a0] + '(_x_)' + src[a1:] if k else None
        return src[:a0] + '_x_' + src[a1:]
    owned = 0
    try:
        for k in range(1, len(cands) + 1):
            a0, a1 = cands[k - 1]
            pre = ' ' if a0 > 0 and (src[a0 - 1].isalnum() or src[a0 - 1] == '_') else ''      # 'if(b)else': the parentheses also separate tokens,
            post = ' ' if a1 < len(src) and (src[a1].isalnum() or src[a1] == '_') else ''       # dropping them must not join identifiers/keywords
            kept = src[:a0] + pre + '(_x_)' + post + src[a1:]
            dropped = src[:a0] + pre + '_x_' + post + src[a1:]
            try:
                kept_tree = ast.parse(kept)
            except (SyntaxError, ValueError):
                # the probe itself is not valid Python although the real source is (CPython rejects '(_x_).i: int = 2' but accepts
                # '(-n).i: int = 2'): the parser cannot be asked about this pair - inconclusive, not judged
                ctx.count('pars_probe_substitution_invalid(not judged)')
                return
            if ast.dump(kept_tree) == ast.dump(ast.parse(dropped)):
                owned = k
            else:
                break
    except (SyntaxError, ValueError):
        pass
    try:
        p = f.pars()
        got = p.n
    except Exception as e:
        ctx.violation('pars-raised', f'{label}: {cls}.pars() raised {type(e).__name__}: {e}', case)
        return
    ctx.count('pars_judged')
    ctx.cell('pars', cls, owned if owned < 3 else '3+', layout)
    if got != owned:
        ctx.violation(f'pars-count-differs-from-parser-judgement:{cls}', f'{label}: {cls} {short(src[s0:s1], 40)!r}: pars().n={got}, parser judges {owned} of {len(cands)} enclosing pairs redundant; context {short(src[max(0, s0 - 30):s1 + 30], 100)!r}', case)
        return
    lines = src.split('\n')
    ot = offs_table(lines)
    want = (s0, s1) if owned == 0 else cands[owned - 1]
    gotspan = (ot[p.ln] + p.col, ot[p.end_ln] + p.end_col)
    if gotspan != want:
        ctx.violation(f'pars-extent-wrong:{cls}', f'{label}: {cls} pars() = {tuple(p)} covers {short(src[gotspan[0]:gotspan[1]], 60)!r}, expected {short(src[want[0]:want[1]], 60)!r}', case)


def search_checks(ctx, root, nodes, src, toks, lines, rnd, label, case, parent_of, in_f=frozenset()):
    if in_f:
        ctx.count('search_skipped_program_with_fstring_internals')
        return   # positions inside f-strings ('=' debug constants) are anomalous in CPython: search is judged on programs without them
    located = [(f, tuple(f.loc)) for f in nodes if f.loc is not None]
    depth = {}

    def dep(a):
        d = 0
        while id(a) in parent_of:
            a = parent_of[id(a)]
            d += 1
        return d
    for f, _ in located:
        depth[id(f)] = dep(f.a)
    pts = sorted({(t.start[0] - 1, t.start[1]) for t in toks} | {(t.end[0] - 1, t.end[1]) for t in toks})
    if not pts:
        return
    rects = []
    if len(pts) <= 40:
        rects = [(p, q) for i, p in enumerate(pts) for q in pts[i:]]
    else:
        for _ in range(250):
            i = rnd.randrange(len(pts))
            j = min(len(pts) - 1, i + rnd.randint(0, 12))
            rects.append((pts[i], pts[j]))
    for _ in range(30):
        ln = rnd.randrange(len(lines))
        c = rnd.randint(0, len(lines[ln]))
        ln2 = rnd.randint(ln, min(len(lines) - 1, ln + 2))
        c2 = rnd.randint(c if ln2 == ln else 0, len(lines[ln2]))
        rects.append(((ln, c), (ln2, c2)))
    # rectangles sharing the start and the END COLUMN of a multi-line node but ending on another line (and the mirrored case)
    ml = [l for f, l in located if l[2] > l[0]]
    rnd.shuffle(ml)
    for l in ml[:25]:
        for l2 in range(l[0], l[2]):
            if l[3] <= len(lines[l2]) and (l2, l[3]) > (l[0], l[1]):
                rects.append(((l[0], l[1]), (l2, l[3])))
        for l1 in range(l[0] + 1, l[2] + 1):
            if l[1] <= len(lines[l1]) and (l1, l[1]) < (l[2], l[3]):
                rects.append(((l1, l[1]), (l[2], l[3])))
    all_located, all_rects = located, rects
    subs = [(f, l) for f, l in located if id(f.a) in parent_of and sum(1 for _ in ast.iter_child_nodes(f.a)) >= 2]
    rnd.shuffle(subs)
    starts = [(root, located, rects)]
    for f, l in subs[:5]:
        mine = []
        for g, gl in all_located:
            x = g.a
            while x is not f.a and id(x) in parent_of:
                x = parent_of[id(x)]
            if x is f.a:
                mine.append((g, gl))
        rs = [r for r in all_rects if r[0] >= (max(0, l[0] - 1), 0) and r[1] <= (l[2] + 1, 10 ** 9)]
        rnd.shuffle(rs)
        starts.append((f, mine, rs[:80]))
    for start, located, rects in starts:
        _search_from(ctx, start, located, rects, depth, parent_of, label, case, start is root)


def _search_from(ctx, root, located, rects, depth, parent_of, label, case, is_root):
    if not is_root:
        ctx.count('search_start_nodes_below_root')
    for (p, q) in rects:
        ln, col, end_ln, end_col = p[0], p[1], q[0], q[1]
        if p == q:
            continue  # empty rectangles: containment at a boundary point is not defined by the documentation
        ctx.count('search_rects')
        # find_in_loc: first in walk order wholly inside
        want_in = next((f for f, l in located if l[0:2] >= (ln, col) and l[2:4] <= (end_ln, end_col)), None)
        try:
            got_in = root.find_in_loc(ln, col, end_ln, end_col)
        except Exception as e:
            ctx.violation('find_in_loc-raised', f'{label}: find_in_loc{(ln, col, end_ln, end_col)} raised {type(e).__name__}: {e}', case)
            continue
        if got_in is not want_in:
            ctx.violation('find_in_loc-differs-from-brute-force', f'{label}: find_in_loc{(ln, col, end_ln, end_col)} = {got_in!r}, brute force first-in-walk-order = {want_in!r}', dict(case, rect=[ln, col, end_ln, end_col]))
        # find_contains_loc
        cont = [(f, l) for f, l in located if l[0:2] <= (ln, col) and l[2:4] >= (end_ln, end_col)]
        for allow in (True, False, 'top'):
            if allow is False:
                c2 = [(f, l) for f, l in cont if not (l[0:2] == (ln, col) and l[2:4] == (end_ln, end_col))]
            else:
                c2 = cont
            if not c2:
                want = None
            else:
                md = max(depth[id(f)] for f, l in c2)
                deepest = [x for x in c2 if depth[id(x[0])] == md][0]
                want = deepest[0]
                if allow == 'top' and deepest[1] == (ln, col, end_ln, end_col):
                    same = [x for x in c2 if x[1] == deepest[1]]
                    want = min(same, key=lambda x: depth[id(x[0])])[0]
            try:
                got = root.find_contains_loc(ln, col, end_ln, end_col, allow)
            except Exception as e:
                ctx.violation('find_contains_loc-raised', f'{label}: find_contains_loc{(ln, col, end_ln, end_col, allow)} raised {type(e).__name__}: {e}', case)
                continue
            if got is not want:
                # several position-less/zero-width siblings can tie on depth: accept any deepest candidate with identical loc
                if got is not None and want is not None and tuple(got.loc) == tuple(want.loc) and allow is not False and depth.get(id(got)) is not None and \
                        any(got is x[0] for x in c2) and (allow is True and depth[id(got)] >= depth[id(want)]):
                    continue
                in_deco = False
                x = want.a if want is not None else None
                while x is not None and id(x) in parent_of:
                    par = parent_of[id(x)]
                    if x in getattr(par, 'decorator_list', ()):
                        in_deco = True
                    x = par
                ctx.violation('find_contains_loc-misses-decorator-nodes' if in_deco else f'find_contains_loc-differs-from-brute-force:{allow}', f'{label}: find_contains_loc{(ln, col, end_ln, end_col)} allow_exact={allow!r} = {got!r}, brute force lowest container = {want!r}', dict(case, rect=[ln, col, end_ln, end_col]))
        # find_loc: exact -> that; else in-loc preferred; else contains
        for top in (False, True):
            exact = [(f, l) for f, l in located if l == (ln, col, end_ln, end_col)]
            if exact:
                want = (min if top else max)(exact, key=lambda x: depth[id(x[0])])[0]
            else:
                c = root.find_contains_loc(ln, col, end_ln, end_col, 'top' if top else True)
                inn = next((f for f, l in located if l[0:2] >= (ln, col) and l[2:4] <= (end_ln, end_col)), None)
                want = inn or c
            try:
                got = root.find_loc(ln, col, end_ln, end_col, top)
            except Exception as e:
                ctx.violation('find_loc-raised', f'{label}: find_loc raised {type(e).__name__}: {e}', case)
                continue
            if got is not want:
                if exact:
                    ctx.violation('find_loc-exact-match-differs', f'{label}: find_loc{(ln, col, end_ln, end_col)} exact_top={top} = {got!r}, brute force = {want!r}', dict(case, rect=[ln, col, end_ln, end_col]))
                else:
                    # documented preference when there is no exact match: the find_in_loc() answer if there is one, otherwise the find_contains_loc() answer
                    ctx.violation('find_loc-differs-from-documented-preference', f'{label}: {root!r}.find_loc{(ln, col, end_ln, end_col)} exact_top={top} = {got!r}; no node has exactly this location, find_in_loc (brute force) = {inn!r}, find_contains_loc = {c!r}', dict(case, rect=[ln, col, end_ln, end_col]))


def edited_program(ctx, FST, src, label, rnd, steps=None):
    """The location oracle on a LIVE tree after 1-3 structured edits (the property speaks of every node with a location, not
    only of freshly parsed trees): locations are cached and offset incrementally, so an edit can leave them stale."""
    from .. import corpus, edits
    from ..base import insync
    try:
        root = FST(src, 'exec')
    except Exception:
        return
    done = []
    if steps is None:
        try:
            donors = edits.donor_codes(FST(corpus.window(rnd, max_len=1200)[1], 'exec'), None, rnd)
        except Exception:
            donors = {}
        for n in root.walk(True):   # prime the location caches so that stale entries can exist at all
            n.loc, n.bloc
        for _ in range(rnd.choice([1, 1, 2, 3])):
            step = edits.gen_step(rnd, root, donors, None, norm=True, with_par=True)
            if step is None:
                break
            before = root.src
            try:
                edits.apply_step(root, step, FST)
            except Exception:
                ctx.count('edit_step_raised')
                if root.src != before:
                    return
                continue
            done.append(step)
    else:
        for step in steps:
            edits.apply_step(root, step, FST)
            done.append(step)
    if not done:
        return
    from ..base import refparse
    base, _ = refparse(root.src)
    if base is None or ast.dump(base) != ast.dump(root.a):
        ctx.count('edited_tree_structure_not_in_sync(C01 territory, not judged)')   # positions are judged below, against the independent parse
        return
    run_program(ctx, FST, root.src, label + '+edited', rnd, do_search=False, root=root, edited_case={'src': src, 'steps': done, 'component': 'edited'})


def run(ctx):
    from fst import FST
    from .. import corpus
    progs = [(f'PAREN[{i}]', s) for i, s in enumerate(PAREN_TABLE)] + [(f'GRAMMAR[{i}]', s) for i, s in enumerate(corpus.GRAMMAR_PROGRAMS)]
    for i, (label, src) in enumerate(progs):
        if ctx.mine(i):
            run_program(ctx, FST, src, label, ctx.rnd)
    while not ctx.out_of_time():
        fn, src = corpus.window(ctx.rnd, max_len=2000 if ctx.tier == 'quick' else 8000)
        r = ctx.rnd.random()
        if r < 0.4:
            s2 = corpus.mut_unicode(src, ctx.rnd)
            if s2:
                src = s2
        if r < 0.7:
            src, _ = corpus.relayout(src, ctx.rnd, kinds=['parens', 'comments', 'continuation', 'tabs', 'semicolons', 'comment_lines'], n=3)
        if ctx.rnd.random() < 0.3:
            if ctx.rnd.random() < 0.5:   # small programs of every statement / header kind (decorator lists, handlers, match, PEP 695 ...): an edit reaches each kind of incremental offsetting
                gi = ctx.rnd.randrange(len(corpus.GRAMMAR_PROGRAMS))
                fn, src = f'GRAMMAR[{gi}]', corpus.GRAMMAR_PROGRAMS[gi]
            edited_program(ctx, FST, src, fn, ctx.rnd)
            continue
        run_program(ctx, FST, src, fn, ctx.rnd, do_search=ctx.rnd.random() < 0.5)


def replay(ctx, case):
    from fst import FST
    import random
    if case.get('component') == 'edited':
        return edited_program(ctx, FST, case['src'], 'replay', random.Random(0), steps=case['steps'])
    if case.get('src'):
        run_program(ctx, FST, case['src'], case.get('label', 'replay'), random.Random(0))
