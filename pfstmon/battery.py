"""Read-only query battery (C02; reused sampled by C07/C12): every answer is encoded to a value comparable across two
structurally equal trees (node-valued answers are encoded as the pure-AST path of the node)."""

import ast

_IS_NAMES = None


def is_names(FST):
    global _IS_NAMES
    if _IS_NAMES is None:
        out = []
        for n in dir(FST):
            if n.startswith('is_') and n not in ('is_FST', 'is_alive'):
                out.append(n)
        _IS_NAMES = out
    return _IS_NAMES


def path_index(root_ast):
    """id(ast node) -> path tuple"""
    idx = {id(root_ast): ()}

    def rec(node, path):
        for field, val in ast.iter_fields(node):
            if isinstance(val, ast.AST):
                p = path + ((field, None),)
                idx[id(val)] = p
                rec(val, p)
            elif isinstance(val, list):
                for i, v in enumerate(val):
                    if isinstance(v, ast.AST):
                        p = path + ((field, i),)
                        idx[id(v)] = p
                        rec(v, p)
    rec(root_ast, ())
    return idx


def enc(v, idx, FST):
    if v is None or isinstance(v, (bool, int, str, float, bytes)):
        return v
    if isinstance(v, FST):
        return ('node', idx.get(id(v.a), 'NOT-IN-TREE'))
    if isinstance(v, tuple):
        n = getattr(v, 'n', None)
        t = tuple(enc(x, idx, FST) for x in v)
        return t + (('n', n),) if n is not None else t
    if isinstance(v, list):
        return [enc(x, idx, FST) for x in v]
    if isinstance(v, ast.AST):
        return ('ast', idx.get(id(v), 'NOT-IN-TREE'))
    return repr(v)[:200]


def _try(fn):
    try:
        return fn()
    except Exception as e:
        return ('EXC', type(e).__name__)


LIST_VIRTUAL = ('_all', '_args', '_bases', '_body', '_attrs')


def battery(f, idx, FST, heavy=True):
    """dict query-name -> encoded answer for node f"""
    a = f.a
    out = {}
    E = lambda v: enc(v, idx, FST)
    out['loc'] = E(_try(lambda: f.loc))
    out['bloc'] = E(_try(lambda: f.bloc))
    out['pars'] = E(_try(lambda: f.pars()))
    out['pars_ns'] = E(_try(lambda: f.pars(shared=False)))
    out['lin'] = E(_try(lambda: (f.lineno, f.col_offset, f.end_lineno, f.end_col_offset)))
    out['ln'] = E(_try(lambda: (f.ln, f.col, f.end_ln, f.end_col)))
    out['has_own_loc'] = E(_try(lambda: f.has_own_loc))
    out['pfield'] = E(_try(lambda: tuple(f.pfield) if f.pfield else None))
    out['parent'] = E(f.parent)
    out['root'] = E(f.root)
    out['is_root'] = f.is_root
    if heavy:
        out['src'] = E(_try(lambda: f.src))
        out['own_src'] = E(_try(lambda: f.own_src()))
        out['lines'] = E(_try(lambda: list(f.lines)))
    for nm in ('next', 'prev', 'first_child', 'last_child', 'last_header_child', 'step_fwd', 'step_back'):
        out[nm] = E(_try(lambda nm=nm: getattr(f, nm)()))
        out[nm + '_all'] = E(_try(lambda nm=nm: getattr(f, nm)(True)))
    out['children'] = E(_try(lambda: [c for c in f.walk(True, self_=False, recurse=False)]))
    out['next_child_chain'] = E(_try(lambda: _chain(f)))
    for nm in is_names(FST):
        def q(nm=nm):
            v = getattr(f, nm)
            return v() if callable(v) else v
        out[nm] = E(_try(q))
    out['has_docstr'] = E(_try(lambda: f.has_docstr))
    out['get_docstr'] = E(_try(lambda: f.get_docstr()))
    if isinstance(a, ast.stmt):
        out['line_comment'] = E(_try(lambda: f.get_line_comment()))
    # views
    for field, val in ast.iter_fields(a):
        if isinstance(val, list):
            out['view_len:' + field] = E(_try(lambda field=field: len(getattr(f, field))))
            if val and isinstance(val[0], ast.AST):
                out['view_items:' + field] = E(_try(lambda field=field: [x for x in getattr(f, field)]))
                out['view_loc:' + field] = E(_try(lambda field=field: getattr(getattr(f, field), 'loc', None)))
    for vf in LIST_VIRTUAL:
        if _has_virtual(a, vf):
            out['view_len:' + vf] = E(_try(lambda vf=vf: len(getattr(f, vf))))
            out['view_src:' + vf] = E(_try(lambda vf=vf: [getattr(x, 'src', x) if not isinstance(x, FST) else x for x in getattr(f, vf)]))
    return out


def _chain(f):
    out, c = [], None
    for _ in range(10000):
        c = f.next_child(c, True)
        if c is None:
            break
        out.append(c)
    return out


def _has_virtual(a, vf):
    if vf == '_all':
        return isinstance(a, (ast.Dict, ast.MatchMapping, ast.Compare, ast.arguments))
    if vf == '_args':
        return isinstance(a, ast.Call)
    if vf == '_bases':
        return isinstance(a, ast.ClassDef)
    if vf == '_body':
        return isinstance(a, (ast.Module, ast.FunctionDef, ast.AsyncFunctionDef, ast.ClassDef))
    return False


def pairs(a, b):
    """lock-step walk of two structurally equal pure ASTs"""
    yield a, b
    for (fa, va), (fb, vb) in zip(ast.iter_fields(a), ast.iter_fields(b)):
        if isinstance(va, ast.AST) and isinstance(vb, ast.AST):
            yield from pairs(va, vb)
        elif isinstance(va, list) and isinstance(vb, list):
            for x, y in zip(va, vb):
                if isinstance(x, ast.AST) and isinstance(y, ast.AST):
                    yield from pairs(x, y)


def compare_with_fresh(root, FST, mode='exec', sample=None, rnd=None, heavy=True):
    """Compare every (sampled) node's battery on the live tree with a fresh parse of root.src.
    Returns (n_compared, first_difference | None) where difference = (node class, path, {query: (live, fresh)})."""
    # the tree-wide default indentation unit is a documented construction setting of a tree (inferred from the source only when it is
    # not given): the fresh tree is built with the live tree's setting so that only cached/linked state is compared
    fresh = FST(root.src, mode, indent=root.indent)
    idx_l = path_index(root.a)
    idx_f = path_index(fresh.a)
    n = 0
    for a, b in pairs(root.a, fresh.a):
        if sample is not None and rnd.random() > sample:
            continue
        fa, fb = getattr(a, 'f', None), b.f
        if fa is None or fa.a is not a:
            return n, (type(a).__name__, idx_l.get(id(a)), {'a.f link': ('broken', 'ok')})
        ba, bb = battery(fa, idx_l, FST, heavy), battery(fb, idx_f, FST, heavy)
        n += 1
        if ba != bb:
            ks = [k for k in ba if ba[k] != bb.get(k)]
            return n, (type(a).__name__, idx_l.get(id(a)), {k: (ba[k], bb.get(k)) for k in ks[:6]})
    return n, None
