#!/usr/bin/env python3
"""Compare META floors with the counters of the current evidence files (same tier): prints floors above a quarter of what was observed."""
import ast, glob, json, os
here = os.path.dirname(os.path.dirname(os.path.abspath(__file__)))
for f in sorted(glob.glob(os.path.join(here, 'pfstmon', 'props', 'c*.py'))):
    t = ast.parse(open(f).read())
    meta = next(ast.literal_eval(n.value) for n in t.body if isinstance(n, ast.Assign) and getattr(n.targets[0], 'id', '') == 'META')
    pid = os.path.basename(f)[:-3].upper()
    try:
        ev = json.load(open(os.path.join(here, 'evidence', pid + '.json')))
    except Exception:
        continue
    tier = ev['tier']
    c = ev['coverage']['counters']
    for name, floor in meta.get('floors', {}).get(tier, {}).items():
        got = ev['coverage']['distinct_nontrivial'] if name == '#cells' else ev['coverage']['evaluations'] if name == '#evaluations' else c.get(name, 0)
        flag = 'TOO HIGH' if floor * 4 > got else ''
        if flag:
            print(f'{pid} {tier} {name}: floor {floor} observed {got} -> suggest {max(1, got // 5)} {flag}')
