#!/bin/bash
# usage: tools/thorough_all.sh [props...]  -- runs the thorough tier of each check on the unchanged tree, one after the other
PROPS=${@:-C01 C02 C03 C04 C05 C06 C07 C08 C09 C10 C11 C12 C13 C14 C15 C16 C17 C18 C19 C20}
for p in $PROPS; do
  out=$(/verif/check $p --tier thorough --seed ${SEED:-0} 2>&1); rc=$?
  echo "$p thorough rc=$rc $(echo "$out" | grep -c '^KNOWN-FINDING') known $(echo "$out" | grep '^\[' | sed 's/ ::.*//')"
  if [ $rc -ne 0 ]; then echo "$out" | grep -A1 "^VIOLATION\|^INCONCLUSIVE" | cut -c1-900 | head -24; fi
done
