"""C16 - scope analysis agrees with Python's own symbol table (translation validation against symtable)."""

import ast
import symtable

META = {
    'level': 'translation_validation',
    'rule': ('every scope (module, def, async def, class, lambda, comprehension) of REAL files and of a GRAMMAR scoping torture set: '
             '(a) scope_symbols(full=True) name set and classification (load/store/del/global/nonlocal/local/free) compared with '
             'symtable.symtable() of the same program with list/set/dict comprehensions rewritten to generator expressions (PEP 709 '
             'inlining removed), compiler-internal names filtered, class-private names mangled; (b) the Name/arg nodes yielded by '
             'walk(scope=True) compared with a reference owner map computed by an independent visitor that is itself validated against '
             'symtable per scope (a scope where the visitor and symtable disagree is not judged). A cell is (scope kind, feature set). Plus generated scoping programs: every name of a 5-name pool used in a random subset of ~29 binding/reference forms (assignment, del, augmented, global/nonlocal, for/with/import/except/walrus targets, walrus in the body and in the defaults of a lambda nested in a comprehension, comprehension variables and nested first iterables, lambda and def parameters/defaults/annotations, class bodies) in nested scopes up to depth 3; programs the compiler rejects are skipped.'),
    'budget': {'quick': 40, 'thorough': 600},
    'floors': {'quick': {'generated_scope_programs': 600, 'scopes_names_compared': 3000, 'scopes_walk_compared': 2500, 'programs': 40},
               'thorough': {'generated_scope_programs': 10000, 'scopes_names_compared': 30000, 'scopes_walk_compared': 25000, 'programs': 300}},
    'programs_counter': 'programs',
    'assumptions': ['CPython 3.12 symtable is the reference; list/set/dict comprehensions are compared through the equivalent generator expression',
                    'annotation scopes of generic defs/classes (PEP 695) are merged with the body scope for the type-parameter names'],
    'technique': 'runtime monitoring: reference-model comparison (symtable + independent owner visitor) at the scope_symbols()/walk(scope=True) boundary',
}

INTERNAL = {'.defaults', '.kwdefaults', '.type_params', '.generic_base', '__class__', '__classdict__', '.0', '__type_params__'}
BOTH_DROP = {'__class__', '__classdict__'}


class DeInline(ast.NodeTransformer):
    def visit_ListComp(self, n):
        self.generic_visit(n)
        return ast.copy_location(ast.GeneratorExp(elt=n.elt, generators=n.generators), n)
    visit_SetComp = visit_ListComp

    def visit_DictComp(self, n):
        self.generic_visit(n)
        return ast.copy_location(ast.GeneratorExp(elt=ast.Tuple(elts=[n.key, n.value], ctx=ast.Load()), generators=n.generators), n)


SCOPE_TYPES = (ast.FunctionDef, ast.AsyncFunctionDef, ast.ClassDef, ast.Lambda, ast.ListComp, ast.SetComp, ast.DictComp, ast.GeneratorExp)


def dfs(node, out, path=()):
    if isinstance(node, SCOPE_TYPES):
        out.append((node, path))
    for field, val in ast.iter_fields(node):
        if isinstance(val, ast.AST):
            dfs(val, out, path + ((field, None),))
        elif isinstance(val, list):
            for i, v in enumerate(val):
                if isinstance(v, ast.AST):
                    dfs(v, out, path + ((field, i),))


def table_key(node):
    if isinstance(node, (ast.FunctionDef, ast.AsyncFunctionDef)):
        return ('function', node.name, node.lineno)
    if isinstance(node, ast.ClassDef):
        return ('class', node.name, node.lineno)
    if isinstance(node, ast.Lambda):
        return ('function', 'lambda', node.lineno)
    return ('function', 'genexpr', node.lineno)


def all_tables(st, out):
    for c in st.get_children():
        out.setdefault((c.get_type(), c.get_name(), c.get_lineno()), []).append(c)
        all_tables(c, out)


def mangle(name, cls):
    if cls and name.startswith('__') and not name.endswith('__') and '.' not in name:
        c = cls.lstrip('_')
        if c:
            return '_' + c + name
    return name


def ref_facts(tab):
    """Classification per name from symtable flags only."""
    out = {}
    for s in tab.get_symbols():
        n = s.get_name()
        if n in INTERNAL or n.startswith('.'):
            continue
        bound = s.is_assigned() or s.is_parameter() or s.is_imported()
        if not (bound or s.is_referenced() or s.is_declared_global() or s.is_nonlocal()):
            continue  # pass-through entry (free variable of a nested scope routed through this one): not a name of this scope
        if tab.get_type() == 'module' and not bound and not s.is_referenced():
            # only 'declared global': either a function's `global x` propagated to the module table, or a walrus inside a
            # module-level comprehension; symtable cannot tell these apart, so the name is not judged either way
            out.setdefault(None, set()).add(n)
            continue
        out[n] = {
            'load': s.is_referenced(), 'bound': bound, 'global': s.is_declared_global(), 'nonlocal': s.is_nonlocal(),
            'local': s.is_local(), 'free_pfst': s.is_referenced() and not bound and not s.is_declared_global() and not s.is_nonlocal(),
        }
    return out


def pfst_facts(f, cls_for_mangle):
    syms = f.scope_symbols(full=True)
    names = {}
    for cat in ('load', 'store', 'del', 'global', 'nonlocal', 'local', 'free'):
        for n in syms.get(cat, {}):
            names.setdefault(mangle(n, cls_for_mangle), set()).add(cat)
    return names


def enclosing_class(path, tree):
    """Name of the innermost enclosing ClassDef along the path (for private-name mangling), or None."""
    cls = None
    n = tree
    for field, idx in path:
        if isinstance(n, ast.ClassDef):
            cls = n.name
        n = getattr(n, field)
        if idx is not None:
            n = n[idx]
    if isinstance(n, ast.ClassDef):
        cls = n.name
    return cls


def resolve(tree, path):
    n = tree
    for field, idx in path:
        n = getattr(n, field)
        if idx is not None:
            n = n[idx]
    return n


def features(node):
    fs = set()
    for n in ast.walk(node):
        t = type(n).__name__
        if t in ('Global', 'Nonlocal', 'NamedExpr', 'AugAssign', 'Import', 'ImportFrom', 'ExceptHandler', 'MatchAs', 'MatchStar', 'MatchMapping',
                 'Lambda', 'ListComp', 'GeneratorExp', 'DictComp', 'SetComp', 'ClassDef', 'Delete', 'TypeVar', 'With', 'For', 'TypeAlias'):
            fs.add(t)
    return '+'.join(sorted(fs)[:6])


def own_nodes(scope_node):
    """Nodes evaluated in THIS scope: nested def/class/lambda bodies are excluded (their decorators, defaults, annotations, bases
    are included); of a comprehension only the first iterable belongs to the enclosing scope."""
    def rec(n, top):
        yield n
        if not top and isinstance(n, (ast.FunctionDef, ast.AsyncFunctionDef)):
            kids = n.decorator_list + n.args.defaults + [d for d in n.args.kw_defaults if d] + \
                [x.annotation for x in n.args.posonlyargs + n.args.args + n.args.kwonlyargs + [y for y in (n.args.vararg, n.args.kwarg) if y] if x.annotation] + ([n.returns] if n.returns else [])
        elif not top and isinstance(n, ast.ClassDef):
            kids = n.decorator_list + n.bases + [k.value for k in n.keywords]
        elif not top and isinstance(n, ast.Lambda):
            kids = n.args.defaults + [d for d in n.args.kw_defaults if d]
        elif not top and isinstance(n, (ast.ListComp, ast.SetComp, ast.DictComp, ast.GeneratorExp)):
            kids = [n.generators[0].iter]
        else:
            kids = list(ast.iter_child_nodes(n))
        for k in kids:
            yield from rec(k, False)
    if isinstance(scope_node, (ast.ListComp, ast.SetComp, ast.DictComp, ast.GeneratorExp)):
        # a comprehension scope: everything except its first iterable and nested scopes
        def rc(n):
            yield from rec(n, False)
        for g_i, g in enumerate(scope_node.generators):
            yield from rc(g.target)
            if g_i:
                yield from rc(g.iter)
            for c in g.ifs:
                yield from rc(c)
        for fld in ('elt', 'key', 'value'):
            if hasattr(scope_node, fld):
                yield from rc(getattr(scope_node, fld))
        return
    yield from rec(scope_node, True)


def classify_name_diff(kind, name, where, scope_node, orig_tree):
    """Mechanism key computed from reference-side facts only."""
    # where: 'missing' (symtable has it, pfst not) / 'extra' / 'class:<cat>'
    # PEP 695: a type parameter of a generic def/class/alias nested directly in this scope, referenced from its annotations/bases
    for n in ast.walk(scope_node):
        if n is not scope_node and getattr(n, 'type_params', None):
            if any(tp.name == name for tp in n.type_params):
                return 'type-param-annotation-scope'
            header = list(n.type_params)
            if isinstance(n, (ast.FunctionDef, ast.AsyncFunctionDef)):
                a = n.args
                header += [x.annotation for x in a.posonlyargs + a.args + a.kwonlyargs + [y for y in (a.vararg, a.kwarg) if y] if x.annotation]
                header += [n.returns] if n.returns else []
            elif isinstance(n, ast.ClassDef):
                header += n.bases + [k.value for k in n.keywords]
            elif isinstance(n, ast.TypeAlias):
                header += [n.value]
            if any(isinstance(x, ast.Name) and x.id == name for h in header for x in ast.walk(h)):
                return 'type-param-annotation-scope'
    if where.startswith('missing'):
        cap = None
        own = list(own_nodes(scope_node))
        for n in own:  # is the name a capture string on a non-Name node of THIS scope?
            if isinstance(n, ast.ExceptHandler) and n.name == name:
                cap = 'capture-name:ExceptHandler.name'
            elif isinstance(n, ast.MatchAs) and n.name == name:
                cap = 'capture-name:MatchAs.name'
            elif isinstance(n, ast.MatchStar) and n.name == name:
                cap = 'capture-name:MatchStar.name'
            elif isinstance(n, ast.MatchMapping) and n.rest == name:
                cap = 'capture-name:MatchMapping.rest'
            if cap:
                break
        fi = None
        for n in own:  # inside the first iterable (not a bare Name) of a comprehension that belongs to this scope
            if isinstance(n, (ast.ListComp, ast.SetComp, ast.DictComp, ast.GeneratorExp)) and n.generators:
                it = n.generators[0].iter
                if not isinstance(it, ast.Name) and any(isinstance(x, ast.Name) and x.id == name for x in ast.walk(it)):
                    fi = 'first-iter-not-a-Name'
                    break
        if where == 'missing:load':
            return fi or cap or f'scope-names-missing:{kind}'
        if cap or fi:
            return cap or fi
        where = 'missing'
    return f'scope-names-{where}:{kind}'


def compare_scope(ctx, f, tab, node, orig_tree, path, fn, kind):
    """(a) names and classification for one paired (pfst scope node, symtable table)."""
    from ..base import short
    cls = enclosing_class(path, orig_tree)
    # for a class scope itself mangling uses its own name
    try:
        pf = pfst_facts(f, cls)
    except Exception as e:
        ctx.violation('scope_symbols-raised', f'{type(e).__name__}: {e} on {kind} at line {node.lineno if hasattr(node, "lineno") else 0} of {fn}', {'file': fn, 'path': list(path)})
        return
    rf = ref_facts(tab)
    # PEP 695: type parameter names live in the annotation scope; pfst reports them as stores of the def/class
    tparams = {tp.name for tp in getattr(node, 'type_params', [])} if not isinstance(node, ast.Module) else set()
    ctx.count('scopes_names_compared')
    ctx.evaluations += 1
    ctx.cell(kind, features(node) if not isinstance(node, ast.Module) else 'module')
    ambiguous = rf.pop(None, set())
    pnames = set(pf) - tparams - BOTH_DROP - ambiguous
    rnames = set(rf) - tparams - BOTH_DROP
    if '*' in pnames:
        pnames.discard('*')
    case = {'file': fn, 'path': list(path), 'kind': kind, 'scope_src': short(ast.get_source_segment(_CUR['src'], node) or '', 600) if fn != 'GRAMMAR' and not isinstance(node, ast.Module) else None}
    for n in sorted(rnames - pnames):
        key = classify_name_diff(kind, n, 'missing', node, orig_tree)
        ctx.violation(key, f'{kind} scope at {fn}:{getattr(node, "lineno", 0)}: symtable records name {n!r} ({rf[n]}), scope_symbols() does not report it', dict(case, name=n))
    for n in sorted(pnames - rnames):
        key = classify_name_diff(kind, n, 'extra', node, orig_tree)
        ctx.violation(key, f'{kind} scope at {fn}:{getattr(node, "lineno", 0)}: scope_symbols() reports {n!r} in {sorted(pf[n])}, symtable has no such symbol', dict(case, name=n))
    if kind in ('genexpr',):
        return  # classification of comprehension scopes: names only (walrus/iteration-variable conventions differ by design)
    for n in sorted(pnames & rnames):
        p, r = pf[n], rf[n]
        diffs = []
        aug = any(isinstance(x, ast.AugAssign) and isinstance(x.target, ast.Name) and x.target.id == n for x in ast.walk(node))
        if 'load' in p and not r['load'] and aug:
            ctx.count('augassign_target_counted_as_load(documented)')
        elif ('load' in p) != r['load']:
            diffs.append(f"load pfst={'load' in p} symtable.is_referenced={r['load']}")
        if kind == 'module' and r['global'] and not r['bound']:
            ctx.count('module_name_only_declared_global_in_symtable(walrus in comprehension or nested global: bound not judged)')
        elif (('store' in p) or ('del' in p)) != r['bound']:
            diffs.append(f"bound pfst store/del={sorted(p & {'store', 'del'})} symtable assigned|param|imported={r['bound']}")
        if ('global' in p) != r['global']:
            diffs.append(f"global pfst={'global' in p} symtable.is_declared_global={r['global']}")
        if ('nonlocal' in p) != r['nonlocal']:
            diffs.append(f"nonlocal pfst={'nonlocal' in p} symtable.is_nonlocal={r['nonlocal']}")
        if ('free' in p) != r['free_pfst']:
            diffs.append(f"free pfst={'free' in p} symtable(referenced, never bound, undeclared)={r['free_pfst']}")
        if 'local' in p and not r['local'] and kind != 'module':
            diffs.append(f"local pfst=True symtable.is_local=False")
        if r['local'] and 'local' not in p and 'del' not in p and kind != 'module' and r['bound']:
            diffs.append(f"local pfst=False symtable.is_local=True")
        ctx.count('names_classified')
        if diffs:
            what = diffs[0].split()[0]
            key = f'scope-classification:{kind}:{what}'
            if kind == 'module' and what == 'global':
                continue  # CPython propagates a function's 'global x' declaration to the module symbol: representation only
            k2 = classify_name_diff(kind, n, 'missing:load' if what in ('load', 'free') else 'missing', node, orig_tree)
            if k2 == 'type-param-annotation-scope':
                key = k2
            elif what in ('bound', 'local', 'free') and k2.startswith('capture-name'):
                key = k2
            elif what in ('load', 'free') and k2 == 'first-iter-not-a-Name':
                key = k2
            ctx.violation(key, f'{kind} scope at {fn}:{getattr(node, "lineno", 0)} name {n!r}: ' + '; '.join(diffs), dict(case, name=n))


# ----------------------------------------------------------------------------------------------------------------------
# (b) reference owner map

class Owners(ast.NodeVisitor):
    """owner[id(node)] = scope node owning that Name / arg / def-name, by the language rules."""

    def __init__(self, tree):
        self.owner = {}
        self.stack = [tree]
        self.generic = set()
        self.visit(tree)

    def cur(self):
        return self.stack[-1]

    def own(self, n, scope=None):
        self.owner[id(n)] = (n, scope if scope is not None else self.cur())

    def visit_Name(self, n):
        self.own(n)

    def visit_arg(self, n):
        # arg node belongs to its function; its annotation to the enclosing scope (handled by the def visitor)
        self.own(n)

    def _funcdef(self, n):
        self.own(n, self.cur())
        if getattr(n, 'type_params', None):
            self.generic.add(id(n))
        for d in n.decorator_list:
            self.visit(d)
        a = n.args
        for x in a.defaults + [k for k in a.kw_defaults if k is not None]:
            self.visit(x)
        for x in a.posonlyargs + a.args + a.kwonlyargs + [y for y in (a.vararg, a.kwarg) if y]:
            if x.annotation:
                self.visit(x.annotation)
        if n.returns:
            self.visit(n.returns)
        for tp in getattr(n, 'type_params', []):
            pass  # not judged
        self.stack.append(n)
        for x in a.posonlyargs + a.args + a.kwonlyargs + [y for y in (a.vararg, a.kwarg) if y]:
            self.own(x)
        for s in n.body:
            self.visit(s)
        self.stack.pop()
    visit_FunctionDef = visit_AsyncFunctionDef = _funcdef

    def visit_Lambda(self, n):
        a = n.args
        for x in a.defaults + [k for k in a.kw_defaults if k is not None]:
            self.visit(x)
        self.stack.append(n)
        for x in a.posonlyargs + a.args + a.kwonlyargs + [y for y in (a.vararg, a.kwarg) if y]:
            self.own(x)
        self.visit(n.body)
        self.stack.pop()

    def visit_ClassDef(self, n):
        self.own(n, self.cur())
        if getattr(n, 'type_params', None):
            self.generic.add(id(n))
        for d in n.decorator_list + n.bases:
            self.visit(d)
        for k in n.keywords:
            self.visit(k.value)
        self.stack.append(n)
        for s in n.body:
            self.visit(s)
        self.stack.pop()

    def _comp(self, n):
        gens = n.generators
        self.visit(gens[0].iter)
        self.stack.append(n)
        elts = [n.key, n.value] if isinstance(n, ast.DictComp) else [n.elt]
        self.visit(gens[0].target)
        for c in gens[0].ifs:
            self.visit(c)
        for g in gens[1:]:
            self.visit(g.target)
            self.visit(g.iter)
            for c in g.ifs:
                self.visit(c)
        for e in elts:
            self.visit(e)
        self.stack.pop()
    visit_ListComp = visit_SetComp = visit_DictComp = visit_GeneratorExp = _comp

    def visit_NamedExpr(self, n):
        # target binds in the nearest enclosing non-comprehension scope
        i = len(self.stack) - 1
        while i > 0 and isinstance(self.stack[i], (ast.ListComp, ast.SetComp, ast.DictComp, ast.GeneratorExp)):
            i -= 1
        self.own(n.target, self.stack[i])
        self.visit(n.value)

    def visit_TypeAlias(self, n):
        self.visit(n.name)
        if not n.type_params:
            pass
        # value lives in an annotation scope: not judged
        self.generic.add(id(n))


def walk_membership(ctx, f, node, owners, fn, kind, path):
    """(b) Name/arg nodes yielded by walk(scope=True) vs the reference owner map."""
    if id(node) in owners.generic:
        ctx.count('walk_generic_scope_not_judged')
        return
    want = set()
    for nid, (n, sc) in owners.owner.items():
        if sc is node and isinstance(n, (ast.Name, ast.arg)):
            want.add((type(n).__name__, n.lineno, n.col_offset, getattr(n, 'id', None) or getattr(n, 'arg', None)))
    has_generic_inside = any(id(x) in owners.generic for x in ast.walk(node) if x is not node)
    def enc(a):
        return (type(a).__name__, a.lineno, a.col_offset, getattr(a, 'id', None) or getattr(a, 'arg', None))
    try:
        got = {enc(g.a) for g in f.walk(True, scope=True) if isinstance(g.a, (ast.Name, ast.arg))}
        got_filtered = {enc(g.a) for g in f.walk(all={ast.Name, ast.arg}, scope=True)}
    except Exception as e:
        ctx.violation('scope-walk-raised', f'{type(e).__name__}: {e} on {kind} at {fn}:{getattr(node, "lineno", 0)}', {'file': fn, 'path': list(path)})
        return
    if has_generic_inside:
        ctx.count('walk_scope_contains_generic_not_judged')
        return
    ctx.count('scopes_walk_compared')
    ctx.count('walk_nodes_compared', len(want))
    if got_filtered != got:
        lost = sorted(got - got_filtered)[:4]
        first_iters = [c.generators[0].iter for c in ast.walk(node) if isinstance(c, (ast.ListComp, ast.SetComp, ast.DictComp, ast.GeneratorExp))]
        inside = all(any(isinstance(x, ast.Name) and enc(x) == l for it in first_iters if not isinstance(it, ast.Name) for x in ast.walk(it)) for l in got - got_filtered)
        ctx.violation('first-iter-not-a-Name' if inside and not (got_filtered - got) else f'scope-walk-filtered-differs:{kind}',
                      f'{kind} scope at {fn}:{getattr(node, "lineno", 0)}: walk(all={{Name,arg}}, scope=True) differs from walk(True, scope=True) filtered: loses {lost} adds {sorted(got_filtered - got)[:4]}',
                      {'file': fn, 'path': list(path)})
    if isinstance(node, (ast.ListComp, ast.SetComp, ast.DictComp, ast.GeneratorExp)):
        # documented quirk: a scope walk *started on* a Comprehension does return walrus targets
        walrus = {enc(x.target) for x in ast.walk(node) if isinstance(x, ast.NamedExpr)}
        if (got - want) and (got - want) <= walrus:
            ctx.count('walrus_targets_on_comprehension_start(documented quirk)')
            got = got - walrus
            want = want - walrus
    if got != want:
        miss = sorted(want - got)[:4]
        extra = sorted(got - want)[:4]
        ctx.violation(f'scope-walk-membership:{kind}', f'{kind} scope at {fn}:{getattr(node, "lineno", 0)}: walk(scope=True) misses {miss} / yields foreign {extra}',
                      {'file': fn, 'path': list(path), 'missing': miss, 'extra': extra})


def validate_owner_visitor(node, owners, tab):
    """The visitor's name set for this scope must equal symtable's (reference vs reference); else the scope is not judged for (b)."""
    names = set()
    for nid, (n, sc) in owners.owner.items():
        if sc is node:
            names.add(getattr(n, 'id', None) or getattr(n, 'arg', None) or getattr(n, 'name', None))
    return names


_CUR = {'src': ''}


def check_program(ctx, FST, src, fn):
    _CUR['src'] = src
    try:
        orig = ast.parse(src)
    except SyntaxError:
        return
    if any(isinstance(n, ast.ImportFrom) and n.module == '__future__' and any(a.name == 'annotations' for a in n.names) for n in orig.body):
        ctx.count('program_skipped_future_annotations')
        return
    try:
        t2 = DeInline().visit(ast.parse(src))
        ast.fix_missing_locations(t2)
        src2 = ast.unparse(t2)
        tree2 = ast.parse(src2)
        top = symtable.symtable(src2, fn, 'exec')
    except Exception as e:
        ctx.count('reference_unavailable:' + type(e).__name__)
        return
    try:
        root = FST(src, 'exec')
    except Exception as e:
        ctx.count('pfst_parse_failed')
        return
    ctx.count('programs')
    so, s2 = [], []
    dfs(orig, so)
    dfs(tree2, s2)
    if len(so) != len(s2):
        ctx.count('scope_lists_differ(not judged)')
        return
    tabs = {}
    all_tables(top, tabs)
    owners = Owners(orig)
    # module scope
    compare_scope(ctx, root, top, orig, orig, (), fn, 'module')
    walk_membership(ctx, root, orig, owners, fn, 'module', ())
    groups = {}
    for (no, po), (n2, p2) in zip(so, s2):
        groups.setdefault(table_key(n2), []).append((no, po, n2))
    for key, members in groups.items():
        cands = tabs.get(key, [])
        generic = False
        if not cands:
            ctx.count('scope_table_not_found')
            continue
        # PEP 695: ('type parameter', name, line) wraps the real table
        real = []
        for c in cands:
            real.append(c)
        if len(real) != len(members):
            # generic defs produce two tables with the same key (annotation scope + body): keep those whose type matches
            real = [c for c in cands if c.get_type() in ('function', 'class')]
            # annotation-scope tables report type 'type parameter' / etc. in 3.12; if still unequal, skip
            if len(real) != len(members):
                ctx.count('scope_pairing_ambiguous(not judged)')
                continue
        if len(members) > 1:
            ctx.count('scope_group_multi(not judged)', len(members))
            continue
        (no, po, n2), tab = members[0], real[0]
        kind = 'genexpr' if key[1] == 'genexpr' else 'lambda' if key[1] == 'lambda' else key[0]
        f = resolve(root.a, po).f
        compare_scope(ctx, f, tab, no, orig, po, fn, kind)
        walk_membership(ctx, f, no, owners, fn, kind, po)
    if len(ctx.samples) < 5:
        ctx.sample({'file': fn, 'scopes': len(so) + 1, 'first_scope_keys': [list(k) for k in list(groups)[:5]]})


TORTURE = [
    'def f(n):\n    return [x + k for x in range(n) if (y := x)] + [lambda q=n: q]\n',
    'def f():\n    try:\n        pass\n    except E as e:\n        print(e)\n',
    'def f(v):\n    match v:\n        case [a, *b]: pass\n        case {"k": c, **d}: pass\n        case P(q=r) as s: pass\n',
    'def f():\n    global x\n    x += 1\n    del y\n    def g():\n        nonlocal z\n        z = 1\n    z = 0\n',
    'class C(B, metaclass=M):\n    __p = 1\n    x = [i for i in range(3)]\n    def m(self, __q=1):\n        return self.__p + __q + __class__.x\n',
    'def f():\n    import a.b, c as d\n    from e import g as h\n    from .i import *\n',
    'def f():\n    with a as b, c as (d, e): pass\n    for i, j in k: pass\n    async def h():\n        async with l as m: pass\n        async for n in o: pass\n',
    'def f():\n    return [[a for a in b] for b in c(d)]\n',
    'def f():\n    return {k: v for k, v in x.items() if (w := k)}\n',
    'def f():\n    return (i for i in range(3) for j in range(i) if i if j)\n',
    'x = [y := f(z) for z in q]\ng = lambda a, *b, c=d, **e: (a, b, c, e, h)\n',
    'def outer():\n    v = 1\n    class K:\n        v = v\n        def m(self): return v\n    return K\n',
    '@dec(a)\ndef f(p: ann = dflt, *, kw: ann2 = d2) -> ret:\n    return p\n',
    '@cdec\nclass D(base1, kw=base2):\n    attr: int = val\n    for loopvar in it: pass\n',
    'def f():\n    x = 1\n    def g():\n        print(x)\n        def h():\n            nonlocal x\n            x = 2\n    lambda: (x, yy)\n',
    'def f(a, b=[c for c in d], *e, **g):\n    return [a for a in e if g]\n',
    'def f():\n    if (n := 10) > 5: pass\n    while (m := n): pass\n    return [o := p for p in q]\n',
    'def f():\n    try: pass\n    except* E as eg: pass\n    finally: fin = 1\n',
    'def f():\n    del a, b[0], c.d\n    a = 1\n',
    'def f[T: int, *Ts, **P](a: T, *args: *Ts) -> T:\n    return a\nclass K[T](B[T]):\n    def m(self) -> T: pass\ntype A[V] = list[V]\n',
    'def f():\n    x: int\n    y: int = 1\n    (z): str = w\n',
    'async def f():\n    return [await a async for a in b]\n',
    'def f():\n    return [lambda: i for i in range(3)], {j for j in k}, {m: n for m, n in o}\n',
    'def f():\n    for x in [x for x in x]: pass\n',
    'def f():\n    class A:\n        global gg\n        gg = 1\n        def m(self):\n            return gg\n',
    # a walrus in the body of a lambda nested in a comprehension binds in the lambda; in its defaults it binds in the enclosing function
    'def f(z):\n    return [(lambda: (y := 1)) for x in z]\n',
    'def f(z):\n    return [(lambda a=(w := 2): (y := a)) for x in z if (q := x)]\n',
    'def f(z):\n    return [[(lambda: (y := 1))() + (k := 3) for i in x] for x in z]\n',
    'def f(z):\n    return {(lambda: [(u := v) for v in x]): (lambda: (t := 1)) for x in z}\n',
    'g = (lambda: (y := 1) for x in z)\nh = [lambda p, q=(r := 1): (s := p) for x in z]\n',
]


NAMES = ['a', 'b', 'c', 'd', 'e']


def gen_scope_program(rnd, depth=0, kind='module', bound_outer=()):
    """Random scoping program: every name of a 5-name pool is used in a random subset of binding/reference forms in nested
    scopes. Programs the compiler rejects (nonlocal without binding, use before global ...) are skipped by check_program."""
    N = lambda: rnd.choice(NAMES)
    ind = '    ' * depth
    lines = []
    if kind == 'def' and rnd.random() < 0.35:
        lines.append(f'{ind}global {N()}')
    if kind == 'def' and bound_outer and rnd.random() < 0.35:
        lines.append(f'{ind}nonlocal {rnd.choice(list(bound_outer))}')
    if kind == 'class' and rnd.random() < 0.15:
        lines.append(f'{ind}global {N()}')
    simple = [
        lambda: f'{N()} = {N()}', lambda: f'print({N()}, {N()})', lambda: f'del {N()}', lambda: f'{N()} += {N()}',
        lambda: f'for {N()} in {N()}: pass', lambda: f'with {N()} as {N()}: pass', lambda: f'import {N()}', lambda: f'import {N()}.{N()}.{N()}',
        lambda: f'import {N()}.{N()} as {N()}', lambda: f'from x import {N()} as {N()}', lambda: f'from x.y import {N()}',
        lambda: f'try: pass\n{ind}except {N()} as {N()}: print({N()})', lambda: f'{N()} = [{N()} for {N()} in {N()} if {N()}]',
        lambda: f'{N()} = [({N()} := {N()}) for {N()} in {N()}]', lambda: f'print({{{N()}: {N()} for {N()} in {{{N()}: {N()} for {N()} in {N()}}}}})',
        lambda: f'print(list({N()} for {N()} in {N()}({N()})))', lambda: f'print([{N()} for {N()} in {N()}.{N()}[{N()}] for {N()} in {N()}])',
        lambda: f'{N()} = lambda {N()}, {N()}={N()}: ({N()}, {N()})', lambda: f'{N()}: {N()} = {N()}', lambda: f'{N()}: {N()}',
        lambda: f'del {N()}, {N()}[0], {N()}.{N()}', lambda: f'({N()}, [{N()}, *{N()}]) = {N()}', lambda: f'if ({N()} := {N()}): pass',
        lambda: f'print([{N()} for {N()} in [{N()} for {N()} in {N()}]])', lambda: f'print([lambda: {N()} for {N()} in {N()}])',
        lambda: f'print([(lambda {N()}=({N()} := {N()}): ({N()} := {N()})) for {N()} in {N()}])', lambda: f'print({{{N()}: (lambda: ({N()} := {N()})) for {N()} in {N()} if ({N()} := {N()})}})',
        lambda: f'print({{{N()} for {N()} in ({N()} for {N()} in {N()})}})', lambda: f'async def g{depth}():\n{ind}    return [await {N()} async for {N()} in {N()}]',
    ]
    bound = set()
    for _ in range(rnd.randint(2, 6)):
        r = rnd.random()
        if r < 0.72 or depth >= 3:
            st = rnd.choice(simple)()
            lines.append(ind + st)
        elif r < 0.88:
            p1, p2 = N(), N()
            head = f'{ind}def f{depth}_{len(lines)}({p1}, {p2}={N()}, *{N()}s, **{N()}k) -> {N()}:' if rnd.random() < 0.6 else f'{ind}def f{depth}_{len(lines)}():'
            body = gen_scope_program(rnd, depth + 1, 'def', tuple(bound) if kind == 'def' else ())
            lines.append(('' if rnd.random() < 0.7 else f'{ind}@{N()}\n') + head + '\n' + body)
        else:
            lines.append(f'{ind}class K{depth}_{len(lines)}({N()}, m={N()}):\n' + gen_scope_program(rnd, depth + 1, 'class', bound_outer if kind != 'def' else tuple(bound)))
        if kind == 'def':
            import re as _re
            m = _re.match(r'\s*(\w) =', lines[-1])
            if m:
                bound.add(m.group(1))
    return '\n'.join(lines) + ('\n' if depth == 0 else '')


def run(ctx):
    from fst import FST
    from .. import corpus
    for i, src in enumerate(TORTURE):
        if ctx.mine(i):
            check_program(ctx, FST, src, 'GRAMMAR')
            ctx.count('torture_programs')
    import random as _random
    ngen = 150 if ctx.tier == 'quick' else 4000
    for k in range(ngen):
        if ctx.out_of_time():
            break
        gs = ctx.seed * 1000003 + ctx.shard * 100000 + k
        src = gen_scope_program(_random.Random(gs))
        check_program(ctx, FST, src, f'GEN:{gs}')
        ctx.count('generated_scope_programs')
    files = corpus.real_files()
    order = list(range(len(files)))
    __import__('random').Random(ctx.seed).shuffle(order)
    for k, fi in enumerate(order):
        if not ctx.mine(k):
            continue
        if ctx.out_of_time():
            break
        r = corpus.load(files[fi])
        if not r or len(r[0]) > (120000 if ctx.tier == 'quick' else 600000):
            continue
        check_program(ctx, FST, r[0], files[fi])


def replay(ctx, case):
    from fst import FST
    fn = case['file']
    if fn == 'GRAMMAR':
        for src in TORTURE:
            check_program(ctx, FST, src, 'GRAMMAR')
    elif fn.startswith('GEN:'):
        import random as _random
        check_program(ctx, FST, gen_scope_program(_random.Random(int(fn[4:]))), fn)
    else:
        check_program(ctx, FST, open(fn).read(), fn)
