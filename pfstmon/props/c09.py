"""C09 - replacing an operand never changes how the surrounding expression groups (finite enumeration, parser as judge)."""

import ast
import copy

META = {
    'level': 'exploration',
    'rule': ('finite table: every expression-valued slot (found by walking ast.parse of each PARENT template: all operators, call/subscript/attribute parts, comprehension '
             'parts, lambda/conditional parts, starred/keyword values, await/yield operands, statement-level expression slots, pattern slots) x every CHILD kind (one per '
             'precedence class and per needs-parentheses-for-other-reasons class, incl. multi-line without brackets and with a comment, and replacements that bring their own needed parentheses around a line break or a comment ending in a backslash) x code form (source, pure AST, FST) x '
             'entry point (replace, put, attribute/view assignment; for list slots also put_slice(one=True), insert+remove, view slice assignment, append to a shortened list) '
             'x pars in {auto, True}. Expected tree = pure-AST replacement (contexts fixed like the compiler); the combination is in scope iff '
             'ast.parse(ast.unparse(expected)) round-trips to the same structure. Oracle: ast.parse(root.src) has exactly the expected structure and the C01 oracle holds. '
             'A cell is (parent template, slot, child, entry point); non-trivial = the child needed or already had parentheses/brackets. Parent templates include the async twins (async with/for/def, async comprehension) and clause-level slots (except*, elif, annotations, type parameters, decorators).'),
    'budget': {'quick': 60, 'thorough': 900},
    'floors': {'quick': {'cases_judged': 60000, 'slots': 150, '#cells': 3000}, 'thorough': {'cases_judged': 200000, 'slots': 150, '#cells': 5000}},
    'exhaustive': {'quick': False, 'thorough': True},
    'shares_c01_oracle': True,
    'assumptions': ['a combination whose expected tree does not survive ast.unparse/ast.parse is not valid Python in that slot: refusals and any parseable result are out of scope there (counted)',
                    'a refusal of a VALID combination is counted (it belongs to C03(iv)/C12), not judged here'],
    'technique': 'runtime monitoring: enumeration of (slot, child, form, entry point) with a pure-AST reference and CPython as judge',
}

PARENTS = ['a + b', 'a - b', 'a * b', 'a ** b', 'a @ b', 'a // b', 'a % b', 'a << b', 'a & b', 'a | b', 'a ^ b', '-a', 'not a', '~a', '+a', 'a and b', 'a or b', 'a and b and c', 'a < b', 'a < b < c', 'a is not b', 'a not in b', 'a == b',
           'a if b else c', 'lambda: a', 'lambda x=a: b', 'a.b', 'a[b]', 'a[b:c]', 'a[b, c]', 'a[b:c:d]', 'a(b)', 'a(b, c=d)', 'a(*b)', 'a(**b)', '[a, b]', '(a, b)', '{a, b}', '{a: b}', '{**a}', '[a for b in c]',
           '[a for b in c if d]', '{a: b for c in d}', '(a for b in c)', '{a for b in c if d if e}', 'await a', '(a := b)', 'yield a', 'yield from a', 'f"{a}"', 'f"{a:{b}}"', '*a, b', 'a, *b', '[*a]', 'x = a', 'x = a, b',
           'x: a = b', 'x += a', 'return a', 'del a', 'assert a, b', 'raise a from b', 'for a in b: pass', 'while a: pass', 'if a: pass', 'with a as b: pass', 'with a: pass', 'with a, b: pass', 'class C(a, b=c): pass',
           'def f(x=a, *, y=b) -> c: pass', '@a\ndef f(): pass', 'print(a if b else c)', '(a, b)[c]', 'a if (b if c else d) else e', 'a.b.c', 'a()()', '-a ** b', '(-a) ** b', 'a ** -b', 'not a == b', 'a < (b < c)',
           '(a := b) + c', 'lambda: (yield)', '[(yield a)]', 'await a ** b', '(await a)(b)', 'a[b](c)', 'a.b[c]', 'a ** b ** c', '(a ** b) ** c', 'a - (b - c)', 'a - b - c', 'a or b and c', '(a or b) and c', 'not (a and b)',
           'a if b else c if d else e', 'x = yield a', 'x = await a', 'f(a for a in b)', 'f((a for a in b), c)', 'async def g():\n    return [await a async for b in c]', 'match a:\n    case b: pass', 'match a, b:\n    case _: pass',
           'match a:\n    case b if c: pass', 'type X = a', 'def f[T: a](): pass', 'x = a[b] = c', 'a[b] += c', 'a.b = c', 'for a.b in c: pass', 'with a as b.c: pass', 'del a.b, c[d]', 'global_ = a,', 'x = *a, *b', 'print(*a, **b)',
           'try: pass\nexcept a: pass', 'try: pass\nexcept (a, b) as c: pass', 'a = b = c', 'assert a', 'raise a', 'a; b', 'x = (a)', 'x = ((a)) + b', 'x = (\n    a\n    + b\n)', 'x = a + (  # c\n    b)', 'é = ü + "日本"',
           # async twins and remaining statement-level / clause-level slots
           'async with a: pass', 'async with a as b: pass', 'async with a, b: pass', 'async for a in b: pass', 'async def g(x=a) -> b: pass', '[a async for b in c if d]', 'with (a, b): pass', 'with (a as b, c): pass',
           'try: pass\nexcept* a: pass', 'while a: pass\nelse: pass', 'if a: pass\nelif b: pass', 'for a, b in c: pass', 'x: a', 'class C[T: a](b): pass', 'type X[T: a] = b', '@a(b)\nclass D: pass',
           'lambda x, *, y=a: b', 'a[b:c, d]', 'a[*b]', '{a: b, **c}', 'f(a)(b)', 'a.b(c).d', 'print(a, sep=b)', 'x = [a] * b', 'return a, b', 'x = not a', 'x = -a', 'a <<= b', 'a **= b', 'assert (a, b)',
           'match a:\n    case 1 if b: pass', 'f"{a!r}" f"{b:>{c}}"', 'x = a if b else c, d', 'del (a), [b]', 'raise a(b) from c.d', 'x = yield from a', 'x = [*a, *b]', 'with a as (b, c): pass',
           # parenthesized targets: fields derived from the target's spelling (AnnAssign.simple) must follow the source
           '(a): b = c', '(a): b', '((a)): b = c', '(a) = b', '(a), b = c', 'for (a) in b: pass', 'with b as (a): pass', '[(a) for (a) in b]', 'del (a)', '(a) += b']
CHILDREN = ['x', '1', '-1', 'x + y', 'x * y', 'x ** y', '-x', 'not x', 'x and y', 'x or y', 'x < y', 'x if y else z', 'lambda: x', 'lambda: (x, y)', 'x.y', 'x[y]', 'x(y)', '[x, y]', '(x, y)', 'x, y', '{x: y}', 'x := y',
            'yield x', 'yield', 'yield from x', 'await x', '*x', 'f"{x}"', '"s" "t"', 'x < y < z', 'x if y else (z if w else v)', '(x)', '((x + y))', 'x\n+\ny', 'x is y', 'x in y', '1.5', '1j', '...', 'x, ',
            'x for x in y', '"s"\n"t"', 'x  # c\n+ y', '(x\n, y)', 'x | y', 'x >> y', 'not x in y', '-x ** y', 'x.y(z)[w]', '{x}', '[x for x in y]', 'é + "ü"', 'lambda x, *y: (yield)', '(yield x)', '(x := y)', 'x,\ny', '1 .real', '1.0.real',
            '-1 ** 2', 'x if y else lambda: z', '*x, y', 'None', 'b"b" b"c"', "f'{x!r:>{w}}'", '(\n    x\n)', 'x[y:z]', 'x @ y',
            # replacements that bring their OWN parentheses, which the line structure needs (a comment ending in a backslash is not a line continuation)
            '(x + # n \\\n y)', '(x # c\n + y)', '(x +\n y)', '(x, # t \\\n y)', '(x if y # q \\\n else z)', '(x and # \\\n y)']
PATTERN_PARENTS = ['match s:\n    case a: pass', 'match s:\n    case [a, b]: pass', 'match s:\n    case a | b: pass', 'match s:\n    case {"k": a}: pass', 'match s:\n    case C(a, k=b): pass', 'match s:\n    case (a as b): pass',
                   'match s:\n    case [a, *b]: pass', 'match s:\n    case a | b | c: pass', 'match s:\n    case [a | b, c]: pass', 'match s:\n    case (a | b) as c: pass', 'match s:\n    case {"k": a | b}: pass']
PATTERN_CHILDREN = ['x', '1', '-1', '1 + 2j', '"s"', 'None', '_', 'x.y', '[x, y]', 'x, y', '(x, y)', 'x | y', '(x | y)', 'x as y', '(x as y)', '{"k": x}', 'C(x)', 'C(x, k=y)', '*x', '[*x, y]', 'x |\ny', '(x\n| y)', '[x,  # c\n y]',
                    '"s" "t"', 'x | y as z', '(x | y) as z', 'C()', '{}', '[]', '()']
SLICE_OPS = ('put_slice_one', 'insert_remove', 'view_setslice')


def sdump(n):
    import re
    return re.sub(r', simple=\d', '', ast.dump(n))   # AnnAssign.simple is derived from the target's spelling (parentheses): judged by the in-sync oracle, not by the grouping comparison


def paths(node, pre=()):
    for f, v in ast.iter_fields(node):
        if isinstance(v, ast.AST):
            yield pre + ((f, None),), v
            yield from paths(v, pre + ((f, None),))
        elif isinstance(v, list):
            for i, e in enumerate(v):
                if isinstance(e, ast.AST):
                    yield pre + ((f, i),), e
                    yield from paths(e, pre + ((f, i),))


def getp(node, path):
    for f, i in path:
        node = getattr(node, f)
        node = node if i is None else node[i]
    return node


def setp(node, path, val):
    for f, i in path[:-1]:
        node = getattr(node, f)
        node = node if i is None else node[i]
    f, i = path[-1]
    if i is None:
        setattr(node, f, val)
    else:
        getattr(node, f)[i] = val


def fixctx(n, ctx):
    if isinstance(n, (ast.Name, ast.Attribute, ast.Subscript, ast.Starred, ast.List, ast.Tuple)):
        n.ctx = ctx()
        if isinstance(n, (ast.List, ast.Tuple)):
            for e in n.elts:
                fixctx(e, ctx)
        elif isinstance(n, ast.Starred):
            fixctx(n.value, ctx)


def parse_child(csrc, pattern=False):
    if pattern:
        for tmpl, ex in (('match _:\n case (\n{}\n ): pass', lambda m: m.body[0].cases[0].pattern), ('match _:\n case [\n{}\n ]: pass', lambda m: m.body[0].cases[0].pattern.patterns[0])):
            try:
                m = ast.parse(tmpl.format(csrc))
                p = ex(m)
                if tmpl.startswith('match _:\n case [') and len(m.body[0].cases[0].pattern.patterns) != 1:
                    continue
                return p
            except (SyntaxError, IndexError):
                continue
        return None
    for tmpl, ex in (('(\n{}\n)', lambda m: m.body[0].value), ('f(\n{}\n)', lambda m: m.body[0].value.args[0] if len(m.body[0].value.args) == 1 and not m.body[0].value.keywords else None), ('_[\n{}\n]', lambda m: m.body[0].value.slice)):
        try:
            v = ex(ast.parse(tmpl.format(csrc)))
            if v is not None:
                return v
        except (SyntaxError, IndexError):
            continue
    return None


def nav(root, path):
    t = root
    for f, i in path:
        t = getattr(t, f) if i is None else getattr(t, f)[i]
    return t


def strip_pos(n):
    for x in ast.walk(n):
        for a in ('lineno', 'col_offset', 'end_lineno', 'end_col_offset'):
            if hasattr(x, a):
                delattr(x, a)
    return n


def run_table(ctx, FST, parents, children, pattern):
    from ..base import insync, short
    mode = 'pattern' if pattern else 'expr'
    cnodes = {}
    for c in children:
        n = parse_child(c, pattern)
        if n is not None:
            cnodes[c] = n
    for pi, psrc in enumerate(parents):
        if not ctx.mine(pi):
            continue
        try:
            pmod = ast.parse(psrc)
        except SyntaxError:
            ctx.count('parent_template_invalid')
            continue
        for path, tgt in list(paths(pmod)):
            if pattern != isinstance(tgt, ast.pattern):
                if not (not pattern and isinstance(tgt, ast.expr)):
                    continue
            if not isinstance(tgt, ast.pattern if pattern else ast.expr) or path[-1][0] == 'ctx':
                continue
            if any(isinstance(getp(pmod, path[:k]), (ast.JoinedStr,)) for k in range(1, len(path))) and False:
                continue
            if not pattern and any(isinstance(getp(pmod, path[:k]), ast.pattern) for k in range(1, len(path) + 1)):
                continue
            ctx.count('slots')
            in_list = path[-1][1] is not None
            for csrc, cnode in cnodes.items():
                if ctx.out_of_time():
                    ctx.count('cases_skipped_time')
                    return
                exp = copy.deepcopy(pmod)
                c2 = copy.deepcopy(cnode)
                cx = getattr(tgt, 'ctx', None)
                if cx is not None and not isinstance(cx, ast.Load):
                    fixctx(c2, type(cx))
                setp(exp, path, c2)
                try:
                    rt = ast.parse(ast.unparse(exp))
                    valid = sdump(rt) == sdump(exp)
                except Exception:
                    valid = False
                eps = ['replace', 'put', 'assign'] + (list(SLICE_OPS) if in_list else [])
                for form in ('src', 'ast', 'fst'):
                    for ep in eps:
                        for pars in ('auto', True):
                            if pars is True and (form != 'src' or ep != 'replace'):
                                continue
                            try:
                                root = FST(psrc, 'exec')
                            except Exception:
                                continue
                            t = nav(root, path)
                            par, pf = t.parent, t.pfield
                            try:
                                code = csrc if form == 'src' else strip_pos(copy.deepcopy(cnode)) if form == 'ast' else FST(csrc, mode)
                            except Exception:
                                ctx.count('child_not_constructible_as_fst')
                                continue
                            opts = {'norm': True, 'pars': pars}
                            case = {'parent': psrc, 'path': [list(p) for p in path], 'child': csrc, 'form': form, 'ep': ep, 'pars': pars, 'pattern': pattern}
                            try:
                                if ep == 'replace':
                                    t.replace(code, **opts)
                                elif ep == 'put':
                                    par.put(code, pf.idx, field=pf.name, **opts)
                                elif ep == 'assign':
                                    with FST.options(**opts):
                                        if pf.idx is None:
                                            setattr(par, pf.name, code)
                                        else:
                                            getattr(par, pf.name)[pf.idx] = code
                                elif ep == 'put_slice_one':
                                    par.put_slice(code, pf.idx, pf.idx + 1, pf.name, one=True, **opts)
                                elif ep == 'insert_remove':
                                    par.insert(code, pf.idx, pf.name, **opts)
                                    getattr(par, pf.name)[pf.idx + 1].remove(**opts)
                                elif ep == 'view_setslice':
                                    with FST.options(**opts):
                                        getattr(par, pf.name)[pf.idx:pf.idx + 1].replace(code, one=True)
                            except Exception as e:
                                ctx.count('refused_valid(C03/C12 territory)' if valid else 'refused_invalid_combination')
                                continue
                            ctx.count('cases_judged')
                            ctx.evaluations += 1
                            nontrivial = '(' in root.src.replace(psrc, '') or '\n' in csrc or csrc.startswith('(')
                            if valid and nontrivial:
                                ctx.cell(psrc[:24], path[-1][0], csrc[:14], ep)
                            try:
                                got = ast.parse(root.src)
                            except SyntaxError:
                                if valid or True:
                                    ctx.violation(classify(psrc, path, csrc, cnode, ep, form, tgt, 'unparsable', valid), f'{ep} of {csrc!r} ({form}) into {psrc!r} at {path[-1]}: result unparsable {short(root.src, 120)!r} (combination {"valid" if valid else "not valid Python"})', case)
                                continue
                            ok, detail = insync(root)
                            if ok is False:
                                ctx.violation(classify(psrc, path, csrc, cnode, ep, form, tgt, 'desync', valid), f'{ep} of {csrc!r} ({form}) into {psrc!r} at {path[-1]}: tree and source out of sync ({detail}): {short(root.src, 120)!r}', case)
                                continue
                            if not valid:
                                ctx.count('accepted_invalid_combination_but_consistent')
                                continue
                            if sdump(got) != sdump(exp):
                                ctx.violation(classify(psrc, path, csrc, cnode, ep, form, tgt, 'regrouped', valid), f'{ep} of {csrc!r} ({form}, pars={pars}) into {psrc!r} at {path[-1]}: source {short(root.src, 120)!r} parses to a different grouping than the parent with that child in that slot', case)
        if len(ctx.samples) < 5:
            ctx.sample({'parent': psrc, 'children': len(cnodes), 'pattern': pattern})


def classify(psrc, path, csrc, cnode, ep, form, tgt, what, valid):
    """mechanism keys (shared with C01 where the mechanism is the same)"""
    slot = path[-1][0]
    if isinstance(cnode, (ast.Yield, ast.YieldFrom)) and form == 'fst' and ep == 'view_setslice' and slot in ('args', 'bases'):
        return 'yield-fst-coerced-to-arglike-sequence-unparenthesized'
    if isinstance(cnode, ast.Lambda) and slot == 'values' and ep in SLICE_OPS:
        return 'lambda-into-boolop-values-slice-path-unparenthesized'
    if not valid and any(isinstance(x, ast.Starred) for x in ast.walk(cnode)):
        node = ast.parse(psrc)
        for f, i in path[:-1]:
            if isinstance(node, ast.Delete):
                return 'starred-accepted-into:Delete.targets'   # same mechanism as the C01 finding: a Starred anywhere inside a del target
            node = getattr(node, f)
            node = node if i is None else node[i]
        if isinstance(node, ast.Delete):
            return 'starred-accepted-into:Delete.targets'
    if isinstance(cnode, ast.Starred) and not valid:
        return f'starred-accepted-into:{type(getp_parent(psrc, path)).__name__}.{slot}'
    if slot in ('target', 'name') and isinstance(getp_parent(psrc, path), (ast.NamedExpr, ast.AnnAssign, ast.TypeAlias)) and isinstance(csrc, str) and csrc.lstrip().startswith('('):
        return 'pars-true-keeps-parentheses-in-slot-that-forbids-them'
    if not valid:
        return f'invalid-combination-accepted-{what}:{type(cnode).__name__}-into-{slot}'
    return f'{what}:{type(cnode).__name__}-into-{type(getp_parent(psrc, path)).__name__}.{slot}:{ep}'


def getp_parent(psrc, path):
    return getp(ast.parse(psrc), path[:-1])


def run(ctx):
    from fst import FST
    run_table(ctx, FST, PATTERN_PARENTS, PATTERN_CHILDREN, True)
    run_table(ctx, FST, PARENTS, CHILDREN, False)


def replay(ctx, case):
    from fst import FST
    run_table(ctx, FST, [case['parent']], [case['child']], case.get('pattern', False))
