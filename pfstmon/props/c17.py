"""C17 - matching depends only on structure; quantifiers behave like regular expressions; search == filtered walk."""

import ast, json
import itertools
import re

META = {
    'level': 'exploration',
    'rule': ('(e) quantifier table: every 1- and 2-item pattern list over the ITEMS table (literals, wildcard, MQ/MQSTAR/PLUS/OPT/MIN/MAX/N '
             'greedy and non-greedy over single-element, wildcard and multi-element subsequence patterns, tagged captures, MTAG '
             'back-references) plus a seeded sample of 3-item lists, run against ALL element strings over {a,b,c} up to the length '
             'bound in several list containers and compared with re.fullmatch of the compiled regex (accept/reject, capture counts, '
             'single captures); (b) every node of REAL windows matched against its own pure AST and against one-leaf mutations; '
             '(d) search(p) vs [n for n in walk(True) if n.match(p)] for a pattern battery; (a) same pattern on LAYOUT variants, '
             'on unparse-reparse and on the pure AST; (c) every match evaluated twice, interleaved, shared empties asserted empty. '
             'A cell is a distinct (component, pattern shape) or (component, node class, leaf kind). Quantifier items also include anonymous sub-patterns holding an INNER tag plus a static tag on the quantifier (inner tag == capture of the last kept iteration as in re, static tag present) and TAGGED quantifiers that also carry a static tag (capture list as in re after backtracking, static tag present); the search battery includes every non-leaf AST class (unaryop, operator, boolop, cmpop, expr_context, pattern, ...), AST instances (Load(), Add(), Name(..)) and MNOT/MAND/MOR/MTYPES combinations of them, plus 40 RANDOM boolean combinators per window (depth <= 3) mixing bare types with field-constrained atoms (MName(ctx=..), MConstant(1), MTYPES((Name, Attribute), ctx=MStore) ...), which is where a type-only shortcut of the search pre-filter would be unsound.'),
    'budget': {'quick': 45, 'thorough': 900},
    'floors': {'quick': {'q_inner_and_static_tags_compared': 80000, 'q_tagged_with_static_tag_compared': 80000, 'q_matches': 200000, 'self_match': 1500, 'leaf_mut': 800, 'search_cmp': 300, 'layout_cmp': 300},
               'thorough': {'q_inner_and_static_tags_compared': 500000, 'q_matches': 3000000, 'self_match': 20000, 'leaf_mut': 10000, 'search_cmp': 4000, 'layout_cmp': 4000}},
    'exhaustive': {'quick': False, 'thorough': False},
    'assumptions': ['Python re module is the reference for quantifier semantics', 'nested quantifiers inside a quantifier subsequence are excluded (documented as not mixing with the parent)',
                    'virtual-field patterns are not compared on pure AST targets (documented)'],
    'technique': 'runtime monitoring: executable reference models (re.fullmatch, filtered walk, own-AST pattern) over enumerated patterns',
}

# ----------------------------------------------------------------------------------------------------------------------
# (e) quantifiers vs re

INNERS = [('a', 'a', 1), ('.', '.', 1), ('ab', 'ab', 2), ('a.', 'a.', 2), ('b', 'b', 1)]
RANGES = [(0, None), (1, None), (0, 1), (2, None), (0, 2), (2, 2), (1, 3)]


def build_items():
    items = [('lit', c) for c in 'abc'] + [('dot',)]
    for inner, _, _ in INNERS:
        for mn, mx in RANGES:
            for greedy in (True, False):
                items.append(('q', inner, mn, mx, greedy))
    # shortcut classes used directly (MQSTAR, MQPLUS.NG, ...)
    for name in ('MQSTAR', 'MQPLUS', 'MQOPT'):
        for greedy in (True, False):
            items.append(('qc', name, greedy))
    for name, arg in (('MQMIN', 1), ('MQMAX', 2), ('MQN', 2)):
        items.append(('qn', name, arg, 'a'))
        items.append(('qn', name, arg, 'ab'))
    for inner in ('.', 'a', 'b'):   # anonymous sub-pattern holding an INNER tag + a static tag on the quantifier itself
        for mn, mx in ((0, None), (1, None), (0, 1), (0, 2)):
            for greedy in (True, False):
                items.append(('qa', inner, mn, mx, greedy))
    for inner in ('a', '.', 'ab'):   # TAGGED quantifier that also carries a static tag (capture list + static tag both judged)
        for mn, mx in ((0, None), (1, None), (0, 2)):
            for greedy in (True, False):
                items.append(('qt', inner, mn, mx, greedy))
    items.append(('tag', '.'))   # M(t=...) capture of one element
    items.append(('tag', 'a'))
    items.append(('ref',))       # MTAG('t') back-reference
    return items


def inner_pat(inner):
    seq = [(... if c == '.' else c) for c in inner]
    return seq[0] if len(seq) == 1 else seq


def item_regex(item, k):
    kind = item[0]
    if kind == 'lit':
        return item[1]
    if kind == 'dot':
        return '.'
    if kind in ('q', 'qt'):
        _, inner, mn, mx, greedy = item
        return '(?P<g%d>(?:%s){%d,%s}%s)' % (k, inner, mn, '' if mx is None else mx, '' if greedy else '?')
    if kind == 'qa':
        _, inner, mn, mx, greedy = item
        return '(?:(?P<x%d>%s)){%d,%s}%s' % (k, inner, mn, '' if mx is None else mx, '' if greedy else '?')
    if kind == 'qc':
        _, name, greedy = item
        return '(?P<g%d>.%s%s)' % (k, {'MQSTAR': '*', 'MQPLUS': '+', 'MQOPT': '?'}[name], '' if greedy else '?')
    if kind == 'qn':
        _, name, arg, inner = item
        rng = {'MQMIN': '{%d,}' % arg, 'MQMAX': '{0,%d}' % arg, 'MQN': '{%d}' % arg}[name]
        return '(?P<g%d>(?:%s)%s)' % (k, inner, rng)
    if kind == 'tag':
        return '(?P<t%d>%s)' % (k, item[1])
    if kind == 'ref':
        return None  # filled by caller (needs the referenced group)
    raise AssertionError(item)


def item_width(item):
    if item[0] in ('q', 'qt'):
        return len(item[1])
    if item[0] == 'qn':
        return len(item[3])
    return 1


def item_pattern(item, k, M, tagname=None):
    """pfst pattern for the item; quantifiers are tagged g<k> so captures can be compared."""
    kind = item[0]
    if kind == 'lit':
        return item[1]
    if kind == 'dot':
        return ...
    if kind == 'q':
        _, inner, mn, mx, greedy = item
        cls = M.MQ if greedy else M.MQ.NG
        return cls(min=mn, max=mx, **{'g%d' % k: inner_pat(inner)})
    if kind == 'qt':
        _, inner, mn, mx, greedy = item
        cls = M.MQ if greedy else M.MQ.NG
        return cls(min=mn, max=mx, **{'g%d' % k: inner_pat(inner), 's%d' % k: k + 100})
    if kind == 'qa':
        _, inner, mn, mx, greedy = item
        cls = M.MQ if greedy else M.MQ.NG
        return cls(M.M(**{'x%d' % k: (... if inner == '.' else inner)}), min=mn, max=mx, **{'s%d' % k: k + 100})
    if kind == 'qc':
        _, name, greedy = item
        cls = getattr(M, name)
        cls = cls if greedy else cls.NG
        return cls(**{'g%d' % k: ...})
    if kind == 'qn':
        _, name, arg, inner = item
        cls = getattr(M, name)
        return cls(arg, **{'g%d' % k: inner_pat(inner)}) if False else _mk_qn(cls, arg, k, inner)
    if kind == 'tag':
        return M.M(**{'t%d' % k: (... if item[1] == '.' else item[1])})
    if kind == 'ref':
        return M.MTAG(tagname)
    raise AssertionError(item)


def _mk_qn(cls, arg, k, inner):
    import inspect
    params = list(inspect.signature(cls.__init__).parameters)
    # MQMIN(anon_pat, /, min, **tags) ; MQMAX(anon_pat, /, max, **tags); MQN(anon_pat, /, n, **tags)
    name = [p for p in params if p not in ('self', 'anon_pat', 'tags')][0]
    return cls(**{name: arg, 'g%d' % k: inner_pat(inner)}) if False else cls(**{'g%d' % k: inner_pat(inner), name: arg})


def compile_case(pi, items):
    """regex string for a pattern list (None if it has a back-reference without a preceding single tag)."""
    parts = []
    last_tag = None
    for k, i in enumerate(pi):
        it = items[i]
        if it[0] == 'ref':
            if last_tag is None:
                return None, None
            parts.append('(?P=%s)' % last_tag)
        else:
            parts.append(item_regex(it, k))
            if it[0] == 'tag':
                last_tag = 't%d' % k
    return ''.join(parts), last_tag


CONTAINERS = ['List', 'Tuple', 'Set', 'Call', 'Global', 'Module', 'Delete']


def make_target(container, s, FST):
    names = list(s)
    if container == 'List':
        return FST('[' + ', '.join(names) + ']'), 'elts'
    if container == 'Tuple':
        return FST('(' + ', '.join(names) + (',' if len(names) == 1 else '') + ')'), 'elts'
    if container == 'Set':
        return (FST('{' + ', '.join(names) + '}') if names else None), 'elts'
    if container == 'Call':
        return FST('f(' + ', '.join(names) + ')'), 'args'
    if container == 'Global':
        return (FST('global ' + ', '.join(names)) if names else None), 'names'
    if container == 'Module':
        return FST('\n'.join(names), 'exec'), 'body'
    if container == 'Delete':
        return (FST('del ' + ', '.join(names)) if names else None), 'targets'


def make_container_pattern(container, elts, M):
    if container == 'Call':
        return M.MCall(args=elts)
    if container == 'Global':
        return M.MGlobal(names=elts)
    if container == 'Module':
        return M.MModule(body=elts)
    if container == 'Delete':
        return M.MDelete(targets=elts)
    return getattr(M, 'M' + container)(elts=elts)


def tag_text(v):
    src = getattr(v, 'src', None)
    if isinstance(src, str):
        return src
    return v if isinstance(v, str) else None


def run_quantifiers(ctx, FST, M):
    items = build_items()
    maxlen = 5 if ctx.tier == 'quick' else 6
    strings = [''.join(p) for n in range(0, maxlen + 1) for p in itertools.product('abc', repeat=n)]
    n_items = len(items)
    pats = [(i,) for i in range(n_items)] + list(itertools.product(range(n_items), repeat=2))
    n3 = 1500 if ctx.tier == 'quick' else 40000
    r3 = __import__('random').Random(ctx.seed * 7919 + 17)
    pats += [tuple(r3.randrange(n_items) for _ in range(3)) for _ in range(n3)]
    if ctx.tier == 'thorough':
        pats += [tuple(r3.randrange(n_items) for _ in range(4)) for _ in range(10000)]
    targets = {}
    budget_end = ctx.budget_s * 0.55
    for pidx, pi in enumerate(pats):
        if not ctx.mine(pidx):
            continue
        if ctx.elapsed() > budget_end:
            ctx.count('q_patterns_skipped_time')
            continue
        rx_s, last_tag = compile_case(pi, items)
        if rx_s is None:
            ctx.count('q_pattern_ref_without_tag')
            continue
        rx = re.compile(rx_s)
        container = CONTAINERS[pidx % len(CONTAINERS)] if pidx % 3 else 'List'
        try:
            elts = []
            lt = None
            for k, i in enumerate(pi):
                elts.append(item_pattern(items[i], k, M, lt))
                if items[i][0] == 'tag':
                    lt = 't%d' % k
            pat = make_container_pattern(container, elts, M)
        except ValueError as e:
            ctx.count('q_pattern_rejected_at_build')
            continue
        ctx.count('q_patterns')
        ctx.cell('q', ' '.join(str(items[i]) for i in pi) if len(pi) < 3 else 'len%d:%s' % (len(pi), '+'.join(sorted({items[i][0] for i in pi}))), container if len(pi) < 2 else '')
        sample_strings = strings if len(pi) <= 2 or ctx.tier == 'thorough' else strings[::3]
        for s in sample_strings:
            key = (container, s)
            if key not in targets:
                targets[key] = make_target(container, s, FST)
            tree, field = targets[key]
            if tree is None:
                continue
            want = rx.fullmatch(s)
            try:
                got = pat.match(tree)
            except Exception as e:
                ctx.violation('quantifier-match-raised', f'{type(e).__name__}: {e} pattern={rx_s!r} on {s!r} in {container}',
                              {'component': 'q', 'pi': list(pi), 'container': container, 's': s})
                break
            ctx.count('q_matches')
            ctx.evaluations += 1
            if (got is None) != (want is None):
                ctx.violation('quantifier-accept-reject-differs-from-re',
                              f'pattern list ~ regex {rx_s!r} on elements {s!r} ({container}.{field}): pfst={"match" if got else "no match"} re={"match" if want else "no match"}',
                              {'component': 'q', 'pi': list(pi), 'container': container, 's': s})
                continue
            if got is None:
                continue
            ctx.count('q_accepts')
            # captures
            bad = None
            for k, i in enumerate(pi):
                it = items[i]
                if it[0] == 'qt' and got.tags.get('s%d' % k) != k + 100:
                    bad = (k, 'static-tag-of-tagged-quantifier', repr(got.tags.get('s%d' % k)), k + 100)
                    break
                if it[0] in ('q', 'qc', 'qn', 'qt'):
                    span = want.group('g%d' % k)
                    tag = got.tags.get('g%d' % k)
                    w = item_width(it)
                    if not isinstance(tag, list) or len(tag) != len(span) // w:
                        bad = (k, 'count', len(tag) if isinstance(tag, list) else repr(tag), span)
                        break
                    texts = []
                    for mm in tag:
                        mt = mm.matched
                        texts.append(''.join(tag_text(x) or '?' for x in mt) if isinstance(mt, list) else (tag_text(mt) or '?'))
                    if ''.join(texts) != span:
                        bad = (k, 'text', texts, span)
                        break
                    ctx.count('q_captures_compared')
                    if it[0] == 'qt':
                        ctx.count('q_tagged_with_static_tag_compared')
                elif it[0] == 'qa':
                    if got.tags.get('s%d' % k) != k + 100:
                        bad = (k, 'static-tag-of-quantifier', repr(got.tags.get('s%d' % k)), k + 100)
                        break
                    xv = got.tags.get('x%d' % k)
                    if (tag_text(xv) if xv is not None else None) != want.group('x%d' % k):
                        bad = (k, 'inner-tag(last kept iteration)', repr(xv), want.group('x%d' % k))
                        break
                    ctx.count('q_captures_compared')
                    ctx.count('q_inner_and_static_tags_compared')
                elif it[0] == 'tag':
                    tv = got.tags.get('t%d' % k)
                    if tag_text(tv) != want.group('t%d' % k):
                        bad = (k, 'single', repr(tv), want.group('t%d' % k))
                        break
                    ctx.count('q_captures_compared')
            if bad:
                ctx.violation('quantifier-capture-differs-from-re', f'regex {rx_s!r} on {s!r} in {container}: item {bad[0]} {bad[1]} pfst={bad[2]} re={bad[3]!r}',
                              {'component': 'q', 'pi': list(pi), 'container': container, 's': s})
        if len(ctx.samples) < 2:
            ctx.sample({'component': 'quantifier', 'regex': rx_s, 'container': container, 'strings_tried': len(sample_strings)})


# ----------------------------------------------------------------------------------------------------------------------
# (b) self pattern and one-leaf mutations

def leaf_mutations(pat, rnd):
    """Yield (description, undo) after mutating exactly one leaf of the pure AST pattern in place."""
    nodes = list(ast.walk(pat))
    rnd.shuffle(nodes)
    done = set()
    for n in nodes:
        for field, kind in (('id', 'Name.id'), ('attr', 'Attribute.attr'), ('arg', 'arg'), ('name', 'name')):
            v = getattr(n, field, None)
            if isinstance(v, str) and field in n._fields and (type(n).__name__, field) not in done:
                done.add((type(n).__name__, field))
                setattr(n, field, v + '_zz')
                yield f'{type(n).__name__}.{field}', (lambda n=n, field=field, v=v: setattr(n, field, v))
        if isinstance(n, ast.Constant) and ('Constant', type(n.value).__name__) not in done and not isinstance(n.value, (type(None), type(...))):
            done.add(('Constant', type(n.value).__name__))
            v = n.value
            nv = (not v) if isinstance(v, bool) else v + 1 if isinstance(v, (int, float, complex)) else v + (b'z' if isinstance(v, bytes) else 'z')
            if nv == v or nv != nv:
                continue  # not a real difference (float absorption / nan)
            n.value = nv
            yield f'Constant:{type(v).__name__}', (lambda n=n, v=v: setattr(n, 'value', v))
        for field, val in ast.iter_fields(n):
            if isinstance(val, (ast.operator, ast.unaryop, ast.boolop)) and ('op', type(val).__name__) not in done:
                done.add(('op', type(val).__name__))
                swap = {ast.Add: ast.Sub, ast.And: ast.Or, ast.Or: ast.And, ast.Not: ast.USub, ast.USub: ast.UAdd}
                new = swap.get(type(val), ast.Add if not isinstance(val, (ast.unaryop, ast.boolop)) else None)
                if new is None or new is type(val):
                    continue
                setattr(n, field, new())
                yield f'op:{type(val).__name__}', (lambda n=n, field=field, val=val: setattr(n, field, val))
            if isinstance(val, list) and val and all(isinstance(x, ast.AST) for x in val) and ('len', type(n).__name__, field) not in done:
                done.add(('len', type(n).__name__, field))
                last = val.pop()
                yield f'len:{type(n).__name__}.{field}', (lambda val=val, last=last: val.append(last))
            if isinstance(val, list) and val and isinstance(val[0], ast.cmpop) and ('cmpop',) not in done:
                done.add(('cmpop',))
                old = val[0]
                val[0] = ast.Is() if not isinstance(old, ast.Is) else ast.Eq()
                yield 'cmpop', (lambda val=val, old=old: val.__setitem__(0, old))
        if len(done) > 14:
            return


def run_self(ctx, FST, M, n_windows):
    from .. import corpus
    from ..base import short
    for _ in range(n_windows):
        if ctx.out_of_time():
            return
        fn, src = corpus.window(ctx.rnd, max_len=2500)
        try:
            root = FST(src, 'exec')
        except Exception:
            continue
        nodes = list(root.walk(True))
        ctx.rnd.shuffle(nodes)
        for n in nodes[:25]:
            if isinstance(n.a, (ast.expr_context, ast.operator, ast.unaryop, ast.boolop, ast.cmpop)):
                continue
            pat = n.copy_ast()
            try:
                m1 = n.match(pat)
                m2 = n.match(pat)
            except Exception as e:
                ctx.violation('self-match-raised', f'{type(e).__name__}: {e} on {short(n.src, 120)!r}', {'component': 'self', 'src': src, 'path': root.child_path(n, True)})
                continue
            ctx.count('self_match')
            ctx.evaluations += 1
            ctx.cell('self', type(n.a).__name__)
            if m1 is None or m2 is None:
                ctx.violation('node-does-not-match-own-ast', f'{type(n.a).__name__} {short(n.src, 160)!r} does not match its own copy_ast()',
                              {'component': 'self', 'src': src, 'path': root.child_path(n, True)})
                continue
            for desc, undo in leaf_mutations(pat, ctx.rnd):
                try:
                    mm = n.match(pat)
                finally:
                    undo()
                ctx.count('leaf_mut')
                ctx.cell('leaf', type(n.a).__name__, desc)
                if mm is not None:
                    ctx.violation('one-leaf-difference-still-matches', f'{type(n.a).__name__} {short(n.src, 160)!r} matches a pattern differing in {desc}',
                                  {'component': 'leaf', 'src': src, 'path': root.child_path(n, True), 'leaf': desc})
            # unchanged again after undo -> must match again (statelessness after failed matches)
            if n.match(pat) is None:
                ctx.violation('match-depends-on-previous-calls', f'{type(n.a).__name__} stops matching its own AST after failed matches', {'component': 'self', 'src': src})
        check_empties(ctx, M)


def check_empties(ctx, M):
    import fst.match as mm
    ctx.count('shared_empties_checked')
    if mm._EMPTY_LIST or mm._EMPTY_SET or mm._EMPTY_DICT:
        ctx.violation('shared-empty-container-mutated', f'_EMPTY_LIST={mm._EMPTY_LIST!r} _EMPTY_SET={mm._EMPTY_SET!r} _EMPTY_DICT={mm._EMPTY_DICT!r}', {'component': 'state'})
        mm._EMPTY_LIST.clear(), mm._EMPTY_SET.clear(), mm._EMPTY_DICT.clear()


# ----------------------------------------------------------------------------------------------------------------------
# (d) search == filtered walk

def pattern_battery(M, rnd, root):
    P = [
        ('Name', lambda: ast.Name), ('MName(ctx=Load)', lambda: M.MName(ctx=ast.Load)), ('MCall(func=Attribute)', lambda: M.MCall(func=ast.Attribute)),
        ('MOR(Name,Attribute)', lambda: M.MOR(ast.Name, ast.Attribute)), ('MNOT(Name)', lambda: M.MNOT(ast.Name)),
        ('MBinOp(op=+)', lambda: M.MBinOp(op='+')), ('M(t=Constant)', lambda: M.M(t=ast.Constant)),
        ('MTYPES(If,For;body)', lambda: M.MTYPES((ast.If, ast.For), body=[..., M.MQSTAR])),
        ('MAND(expr,MNOT(Name))', lambda: M.MAND(ast.expr, M.MNOT(ast.Name))), ('stmt', lambda: ast.stmt), ('expr', lambda: ast.expr),
        ('MCB(is_Name)', lambda: M.MCB(lambda n: n.is_Name)), ("'x'", lambda: 'x'), ("'self'", lambda: 'self'), ('re self\\..*', lambda: re.compile(r'self\..*')),
        ('MMAYBE(Name)', lambda: M.MMAYBE(ast.Name)), ("MAttribute(value='self')", lambda: M.MAttribute(value='self')),
        ('MOR(str,type)', lambda: M.MOR('self', ast.Constant)), ('MNOT(MOR)', lambda: M.MNOT(M.MOR(ast.Name, ast.Constant, ast.Attribute))),
        ('MAND(MNOT,MNOT)', lambda: M.MAND(M.MNOT(ast.stmt), M.MNOT(ast.expr))), ('MRE', lambda: M.MRE(r'^[a-z_]+$')),
        ('MFunctionDef(body=[...,Return])', lambda: M.MFunctionDef(body=[M.MQSTAR, ast.Return])), ('MCall(args=[a,QSTAR])', lambda: M.MCall(args=[..., M.MQSTAR])),
        ('MConstant(str)', lambda: M.MConstant(value=str)), ('MTYPES(operator)', lambda: M.MTYPES((ast.Add, ast.Sub, ast.Mult))),
        ('MNOT(MNOT(Name))', lambda: M.MNOT(M.MNOT(ast.Name))), ('arguments', lambda: ast.arguments), ('MOR(MCB,MRE)', lambda: M.MOR(M.MCB(lambda n: n.is_stmt), M.MRE('x'))),
        ('Ellipsis', lambda: ...), ('MAssign(targets=[Name])', lambda: M.MAssign(targets=[ast.Name])),
        ('MCompare', lambda: M.MCompare(ops=[..., M.MQSTAR])), ('MIf(orelse=[])', lambda: M.MIf(orelse=[])),
        # every NON-LEAF AST class, bare and wrapped: search() derives the node types to visit from the pattern
        ('unaryop', lambda: ast.unaryop), ('operator', lambda: ast.operator), ('boolop', lambda: ast.boolop), ('cmpop', lambda: ast.cmpop), ('expr_context', lambda: ast.expr_context),
        ('pattern', lambda: ast.pattern), ('mod', lambda: ast.mod), ('excepthandler', lambda: ast.excepthandler), ('type_param', lambda: ast.type_param), ('AST', lambda: ast.AST),
        ('M(u=unaryop)', lambda: M.M(u=ast.unaryop)), ('MOR(Name,unaryop)', lambda: M.MOR(ast.Name, ast.unaryop)), ('MTYPES(unaryop,cmpop)', lambda: M.MTYPES((ast.unaryop, ast.cmpop))),
        ('MAND(unaryop,MNOT(Not))', lambda: M.MAND(ast.unaryop, M.MNOT(ast.Not))), ('MOR(operator,boolop)', lambda: M.MOR(ast.operator, ast.boolop)), ('MNOT(operator)', lambda: M.MNOT(ast.operator)),
        ('MUnaryOp(op=unaryop)', lambda: M.MUnaryOp(op=ast.unaryop)), ('MBoolOp(op=boolop)', lambda: M.MBoolOp(op=ast.boolop)), ('MCompare(ops=[cmpop,..])', lambda: M.MCompare(ops=[ast.cmpop, M.MQSTAR])),
        ('Not', lambda: ast.Not), ('USub', lambda: ast.USub), ('And', lambda: ast.And), ('IsNot', lambda: ast.IsNot), ('Load', lambda: ast.Load), ('Store', lambda: ast.Store), ('MatchAs', lambda: ast.MatchAs),
        ('comprehension', lambda: ast.comprehension), ('keyword', lambda: ast.keyword), ('alias', lambda: ast.alias), ('withitem', lambda: ast.withitem), ('match_case', lambda: ast.match_case),
        ("MNOT(MName(id='self'))", lambda: M.MNOT(M.MName(id='self'))), ('MNOT(MCall(args=[]))', lambda: M.MNOT(M.MCall(args=[]))), ('MAND(Name,MNOT(MName(ctx=Load)))', lambda: M.MAND(ast.Name, M.MNOT(M.MName(ctx=ast.Load)))),
    ]
    P += [('Load()', lambda: ast.Load()), ('Store()', lambda: ast.Store()), ('Del()', lambda: ast.Del()), ('Add()', lambda: ast.Add()), ('Not()', lambda: ast.Not()), ('And()', lambda: ast.And()),
          ('Pass()', lambda: ast.Pass()), ("Name('self',Load())", lambda: ast.Name(id='self', ctx=ast.Load())), ("Name('x',Store())", lambda: ast.Name(id='x', ctx=ast.Store())),
          ('MNOT(Load())', lambda: M.MNOT(ast.Load())), ("MOR(Store(),'self')", lambda: M.MOR(ast.Store(), 'self')), ('MLoad()', lambda: M.MLoad()), ('MNOT(MLoad())', lambda: M.MNOT(M.MLoad()))]
    for nm in ('Munaryop', 'Moperator', 'Mboolop', 'Mcmpop', 'Mexpr', 'Mstmt', 'Mexpr_context', 'Mpattern'):
        if hasattr(M, nm):
            P.append((nm, lambda nm=nm: getattr(M, nm)))
            P.append((nm + '()', lambda nm=nm: getattr(M, nm)()))
    # a pattern from a node of this very tree (its own AST), guaranteed to hit
    nodes = [n for n in root.walk(True) if isinstance(n.a, (ast.expr, ast.stmt))]
    if nodes:
        n = rnd.choice(nodes)
        a = n.copy_ast()
        P.append(('ownAST:' + type(a).__name__, lambda a=a: a))
    return P


# random boolean combinators over atoms: search() derives the node types it visits from the pattern (type-only shortcuts of
# MNOT / MOR / MAND / MTYPES), so every mix of bare types with FIELD-CONSTRAINED atoms must still agree with match()
_ATOMS = ['Name', 'Attribute', 'Constant', 'Call', 'BinOp', 'expr', 'stmt', 'operator', 'expr_context', 'arg', 'keyword', 'Assign', 'Return',
          'MName(id=self)', 'MName(ctx=Store)', 'MName(ctx=MStore)', 'MConstant(1)', 'MConstant(str)', 'MAttribute(attr=x)', 'MCall(args=[])',
          'MTYPES(Name,Attribute;ctx=MStore)', 'MTYPES(Name,Attribute;ctx=Store)', 'MTYPES(Name;id=self)', 'MTYPES(Name,Constant)', 'MTYPES(Constant;value=1)',
          'MTYPES(If,While;orelse=[])', "'self'", 'Load()', 'MStore()', 'MBinOp(op=Add)']


def gen_spec(rnd, depth=0):
    r = rnd.random()
    if depth >= 3 or r < 0.3 + 0.15 * depth:
        return rnd.choice(_ATOMS)
    if r < 0.62:
        return ['MNOT', gen_spec(rnd, depth + 1)]
    op = 'MOR' if r < 0.82 else 'MAND'
    return [op] + [gen_spec(rnd, depth + 1) for _ in range(rnd.randint(2, 3))]


def build_spec(M, spec):
    if isinstance(spec, list):
        args = [build_spec(M, x) for x in spec[1:]]
        return getattr(M, spec[0])(*args)
    table = {
        'MName(id=self)': lambda: M.MName(id='self'), 'MName(ctx=Store)': lambda: M.MName(ctx=ast.Store), 'MName(ctx=MStore)': lambda: M.MName(ctx=M.MStore),
        'MConstant(1)': lambda: M.MConstant(1), 'MConstant(str)': lambda: M.MConstant(value=str), 'MAttribute(attr=x)': lambda: M.MAttribute(attr='x'),
        'MCall(args=[])': lambda: M.MCall(args=[]), 'MTYPES(Name,Attribute;ctx=MStore)': lambda: M.MTYPES((ast.Name, ast.Attribute), ctx=M.MStore),
        'MTYPES(Name,Attribute;ctx=Store)': lambda: M.MTYPES((ast.Name, ast.Attribute), ctx=ast.Store), 'MTYPES(Name;id=self)': lambda: M.MTYPES((ast.Name,), id='self'),
        'MTYPES(Name,Constant)': lambda: M.MTYPES((ast.Name, ast.Constant)), 'MTYPES(Constant;value=1)': lambda: M.MTYPES((ast.Constant,), value=1),
        'MTYPES(If,While;orelse=[])': lambda: M.MTYPES((ast.If, ast.While), orelse=[]), "'self'": lambda: 'self', 'Load()': lambda: ast.Load(), 'MStore()': lambda: M.MStore(),
        'MBinOp(op=Add)': lambda: M.MBinOp(op=ast.Add),
    }
    if spec in table:
        return table[spec]()
    return getattr(ast, spec)


def spec_battery(M, rnd, n):
    out = []
    for _ in range(n):
        spec = gen_spec(rnd)
        if not isinstance(spec, list):
            spec = ['MNOT', spec]
        out.append(('spec:' + json.dumps(spec), (lambda spec=spec: build_spec(M, spec))))
    return out


def run_search(ctx, FST, M, n_windows):
    from .. import corpus
    for _ in range(n_windows):
        if ctx.out_of_time():
            return
        fn, src = corpus.window(ctx.rnd, max_len=2500)
        try:
            root = FST(src, 'exec')
        except Exception:
            continue
        for name, mk in pattern_battery(M, ctx.rnd, root) + spec_battery(M, ctx.rnd, 40):
            if name.startswith('spec:'):
                ctx.count('search_random_combinator_patterns')
            for kw in ({}, {'back': True}, {'self_': False}, {'recurse': False}):
                if kw and ctx.rnd.random() < 0.6:
                    continue
                try:
                    got = [m.matched for m in root.search(mk(), **kw)]
                    want = [n for n in root.walk(True, **kw) if n.match(mk())]
                except Exception as e:
                    ctx.violation('search-or-match-raised', f'{type(e).__name__}: {e} pattern {name}', {'component': 'search', 'src': src, 'pattern': name, 'kw': kw})
                    continue
                ctx.count('search_cmp')
                ctx.evaluations += 1
                if got:
                    ctx.cell('search', name, str(sorted(kw)))
                    ctx.count('search_nonempty')
                if len(got) != len(want) or any(x is not y for x, y in zip(got, want)):
                    ctx.violation('search-differs-from-filtered-walk', f'pattern {name} {kw}: search yields {len(got)} nodes, filtered walk(True) {len(want)}',
                                  {'component': 'search', 'src': src, 'pattern': name, 'kw': kw})
            # nested=False: outermost matches only
            try:
                got = [m.matched for m in root.search(mk(), nested=False)]
                allm = [n for n in root.walk(True) if n.match(mk())]
            except Exception:
                continue
            want = []
            for n in allm:
                if not any(p is q for q in want for p in n.parents()):
                    want.append(n)
            ctx.count('search_nested_false_cmp')
            if len(got) != len(want) or any(x is not y for x, y in zip(got, want)):
                ctx.violation('search-nested-false-differs', f'pattern {name}: nested=False yields {len(got)}, outermost-filtered walk {len(want)}',
                              {'component': 'search_nf', 'src': src, 'pattern': name})
        check_empties(ctx, M)
        if len(ctx.samples) < 4:
            ctx.sample({'component': 'search', 'file': fn, 'patterns': len(pattern_battery(M, ctx.rnd, root))})


# ----------------------------------------------------------------------------------------------------------------------
# (a) layout independence

def build_struct_pattern(n, M, rnd, depth=0):
    """An M-pattern for node n: its MAST class with a random subset of fields constrained (recursively / by pure AST / by
    wildcard), and tags on some sub-patterns. No source-text sub-patterns."""
    a = n if isinstance(n, ast.AST) else n.a
    cls = getattr(M, 'M' + type(a).__name__, None)
    if cls is None or depth > 2:
        return type(a)
    kw = {}
    for field, val in ast.iter_fields(a):
        r = rnd.random()
        if field in ('ctx', 'type_comment', 'kind') or r < 0.35:
            continue
        if isinstance(val, ast.AST):
            sub = build_struct_pattern(val, M, rnd, depth + 1) if r < 0.7 else __import__('copy').deepcopy(val)
            if rnd.random() < 0.3 and not isinstance(val, (ast.expr_context,)):
                sub = M.M(**{'t_%s%d' % (field, depth): sub})
            kw[field] = sub
        elif isinstance(val, list):
            if all(isinstance(x, ast.AST) for x in val):
                if r < 0.55:
                    kw[field] = [M.MQSTAR]
                elif r < 0.75 and val:
                    kw[field] = [build_struct_pattern(val[0], M, rnd, depth + 1), M.MQSTAR]
                elif val:
                    kw[field] = [M.MQSTAR.NG, M.M(**{'t_last%d' % depth: type(val[-1])})]
                else:
                    kw[field] = []
        elif isinstance(val, (str, int, float, bytes, bool, type(None))) and field not in ('lineno',):
            if r < 0.8:
                kw[field] = val
    try:
        return cls(**kw)
    except Exception:
        return type(a)


def encode_match(m, root_ast):
    if m is None:
        return None
    out = {}
    for k, v in m.tags.items():
        out[k] = enc_val(v)
    return out


def enc_val(v):
    a = getattr(v, 'a', v)
    if isinstance(a, ast.AST):
        return ast.dump(a)
    if isinstance(v, list):
        return [enc_val(x) for x in v]
    m = getattr(v, 'matched', None)
    if m is not None:
        return ('M', enc_val(m))
    return repr(v)


def run_layout(ctx, FST, M, n_windows):
    from .. import corpus, edits
    from ..base import S
    for _ in range(n_windows):
        if ctx.out_of_time():
            return
        fn, src = corpus.window(ctx.rnd, max_len=2000)
        variants = [('orig', src)]
        v2, applied = corpus.relayout(src, ctx.rnd, kinds=['comments', 'comment_lines', 'parens', 'continuation', 'semicolons', 'tabs'], n=3)
        if applied:
            variants.append(('+'.join(applied), v2))
        try:
            variants.append(('unparse', ast.unparse(ast.parse(src))))
        except Exception:
            pass
        trees = []
        base_s = None
        for name, vs in variants:
            try:
                t = FST(vs, 'exec')
            except Exception:
                continue
            s = S(ast.parse(vs))
            if base_s is None:
                base_s = s
            if s != base_s:
                ctx.count('layout_variant_structure_differs(skipped)')
                continue
            trees.append((name, t))
        if len(trees) < 2:
            continue
        idx = edits.index_tree(trees[0][1].a)
        ctx.rnd.shuffle(idx)
        for node, parent, field, i, path in idx[:12]:
            if isinstance(node, (ast.expr_context, ast.operator, ast.unaryop, ast.boolop, ast.cmpop)):
                continue
            pat = build_struct_pattern(node, M, ctx.rnd)
            # targets: the corresponding node and a few other nodes of the same class
            same = [p for nd, _, _, _, p in idx if type(nd) is type(node)][:4]
            for tp in [path] + same:
                encs = []
                for name, t in trees:
                    tn = edits.resolve(t.a, tp)
                    try:
                        encs.append((name, encode_match(tn.f.match(pat), t.a)))
                    except Exception as e:
                        encs.append((name, ('EXC', type(e).__name__, str(e)[:80])))
                # pure AST target
                pure = ast.parse(trees[0][1].src)
                pn = edits.resolve(pure, tp)
                uses_virtual = False
                try:
                    pm = pat.match(pn) if hasattr(pat, 'match') else None
                    if hasattr(pat, 'match'):
                        encs.append(('pureAST', encode_match(pm, pure)))
                except Exception as e:
                    ctx.count('pure_ast_match_raised:' + type(e).__name__)
                ctx.count('layout_cmp')
                ctx.evaluations += 1
                first = encs[0][1]
                if first is not None:
                    ctx.count('layout_cmp_matched')
                    ctx.cell('layout', type(node).__name__, trees[1][0] if len(trees) > 1 else '')
                for name, e in encs[1:]:
                    if e != first:
                        ctx.violation('match-result-depends-on-layout', f'{type(node).__name__} pattern {pat!r:.300}: {encs[0][0]} -> {str(first)[:200]} but {name} -> {str(e)[:200]}',
                                      {'component': 'layout', 'src': src, 'variant': name, 'variant_src': dict(variants).get(name), 'path': tp})
                        break
        check_empties(ctx, M)


def run(ctx):
    from fst import FST
    import fst.match as M
    run_quantifiers(ctx, FST, M)
    q = 1 if ctx.tier == 'quick' else 12
    while not ctx.out_of_time():
        run_self(ctx, FST, M, 6 * q)
        run_search(ctx, FST, M, 3 * q)
        run_layout(ctx, FST, M, 4 * q)


def replay(ctx, case):
    from fst import FST
    import fst.match as M
    if case.get('component') == 'q':
        items = build_items()
        pi = case['pi']
        rx_s, _ = compile_case(pi, items)
        elts, lt = [], None
        for k, i in enumerate(pi):
            elts.append(item_pattern(items[i], k, M, lt))
            if items[i][0] == 'tag':
                lt = 't%d' % k
        pat = make_container_pattern(case['container'], elts, M)
        tree, field = make_target(case['container'], case['s'], FST)
        got = pat.match(tree)
        want = re.fullmatch(rx_s, case['s'])
        print('pattern', pat, 'regex', rx_s, 'target', tree.src, 'pfst', got, 're', want)
        if (got is None) != (want is None):
            ctx.violation('quantifier-accept-reject-differs-from-re', 'replayed', case)
    else:
        print('replay: re-run the shard with the same seed for component', case.get('component'))
