"""C07 - copying never disturbs the tree; extraction is faithful and loses nothing."""

import ast
import collections
import io
import keyword
import re
import tokenize

META = {
    'level': 'exploration',
    'rule': ('per window: for sampled nodes and slices [i:j] of every list-like field (incl. virtual _all/_args/_bases/_body), under options trivia in {default, False, "all", (), '
             '"block+1", (False,"all")}, pars in {auto, True}, norm, docstr in {True,"strict",False}, pars_walrus, pars_arglike: (i) copy()/get()/get_slice() leave source and '
             'dump(include_attributes) of the tree unchanged (and a sampled query battery equal to a fresh parse); (ii) the result parses on its own in its kind through the '
             'CPython embedding reference with equal positions; (iii) its structure equals the original sub-tree/sub-list (contexts normalised, docstrings compared modulo '
             're-indentation); (iv) on two further fresh parses of the same text: cut() returns the same source and structure as copy(), and what cut leaves equals what '
             'remove()/put_slice(None) leaves (source and dump); (v) conservation: COMMENT tokens and NAME/NUMBER/STRING leaf tokens of the original are exactly those of the '
             'remainder plus the extracted piece. A cell is (node class or field, options class, check). A deterministic table of 17 small multi-byte containers (trailing separators, separators on own / continuation lines) is run with every node and many slices in both tiers.'),
    'budget': {'quick': 45, 'thorough': 900},
    'floors': {'quick': {'copies_checked': 8000, 'cut_vs_copy_delete': 4000, 'conservation_checked': 4000, 'standalone_parsed': 5000},
               'thorough': {'copies_checked': 200000, 'cut_vs_copy_delete': 100000, 'conservation_checked': 100000, 'standalone_parsed': 120000}},
    'assumptions': ['a standalone piece is judged through the layout-neutral CPython embedding of its kind (embed.py); kinds without an embedding are counted, not judged',
                    'multi-line string tokens are compared modulo leading whitespace of continuation lines (documented docstring re-indentation)'],
    'technique': 'runtime monitoring: offline relations over recorded results (copy vs cut vs delete, token conservation) + embedding reference',
}

CTX_RE = re.compile(r', ctx=(Load|Store|Del)\(\)')
OPTS = [{}, {}, {'trivia': False}, {'trivia': 'all'}, {'trivia': ()}, {'trivia': 'block+1'}, {'trivia': (False, 'all')}, {'trivia': ('all', 'line')}, {'pars': True}, {'norm': True},
        {'docstr': 'strict'}, {'docstr': False}, {'pars_walrus': True}, {'pars_arglike': False}, {'trivia': (False, False)}, {'pep8space': False}, {'trivia': 'all', 'norm': True}]


def Sn(a, lenient_str=True):
    """structure with contexts removed and string constants whitespace-normalised (docstring re-indentation)"""
    if isinstance(a, list):
        return [Sn(x) for x in a]
    def nd(n):
        if isinstance(n, ast.AST):
            if isinstance(n, ast.expr_context):
                return ''
            parts = []
            for fld in n._fields:
                v = getattr(n, fld, None)
                if isinstance(n, ast.Constant) and fld == 'value' and isinstance(v, str) and '\n' in v:
                    v = '\n'.join(l.strip() for l in v.split('\n'))
                parts.append(f'{fld}={nd(v)}')
            return f'{type(n).__name__}({", ".join(parts)})'
        if isinstance(n, list):
            return '[' + ', '.join(nd(x) for x in n) + ']'
        return repr(n)
    return nd(a)


def tok_multisets(src):
    """(comments Counter, leaves Counter) or None"""
    try:
        com, leaf = collections.Counter(), collections.Counter()
        for t in tokenize.generate_tokens(io.StringIO(src).readline):
            if t.type == tokenize.COMMENT:
                com[t.string.rstrip()] += 1
            elif t.type == tokenize.NAME and not keyword.iskeyword(t.string) and t.string not in ('match', 'case', 'type', '_'):
                leaf[t.string] += 1
            elif t.type in (tokenize.NUMBER,):
                leaf[t.string] += 1
            elif t.type in (tokenize.STRING, tokenize.FSTRING_MIDDLE):
                leaf[re.sub(r'\n[ \t]+', '\n', t.string)] += 1
        return com, leaf
    except Exception:
        return None


def trivia_selected_comments(src, node, opts):
    """Comments the effective trivia option selects for deletion together with the element (my reading of the option docs):
    trailing != none: the comment on the element's last line (and, for 'all'/'block', comment lines that follow until code);
    leading 'block': contiguous comment lines directly above; 'all': all comment/blank lines above up to the previous code."""
    t = opts.get('trivia', True)
    if t is True:
        lead, trail = 'block', 'line'
    elif t is False:
        lead, trail = 'none', 'line'
    elif t == ():
        lead, trail = 'none', 'none'
    elif isinstance(t, tuple):
        if len(t) == 1:
            lead, trail = 'block', t[0]
        else:
            lead, trail = t
        lead = 'none' if lead is False else 'block' if lead is True else lead
        trail = 'none' if trail is False else 'line' if trail is True else trail
    else:
        lead, trail = t, 'line'
    lead, trail = str(lead), str(trail)
    out = collections.Counter()
    if not hasattr(node, 'lineno'):
        kids = [k for k in ast.walk(node) if hasattr(k, 'lineno')]
        if not kids:
            return out
        first = min(kids, key=lambda k: (k.lineno, k.col_offset))
        last = max(kids, key=lambda k: (k.end_lineno, k.end_col_offset))
        node = ast.Name(id='_', lineno=first.lineno, col_offset=first.col_offset, end_lineno=last.end_lineno, end_col_offset=last.end_col_offset)
    lines = src.split('\n')
    try:
        toks = list(tokenize.generate_tokens(io.StringIO(src).readline))
    except Exception:
        return out
    comments = {t_.start[0]: t_.string.rstrip() for t_ in toks if t_.type == tokenize.COMMENT}
    code_lines = {ln for t_ in toks if t_.type not in (tokenize.COMMENT, tokenize.NL, tokenize.NEWLINE, tokenize.INDENT, tokenize.DEDENT, tokenize.ENDMARKER) for ln in range(t_.start[0], t_.end[0] + 1)}
    if not trail.startswith('none'):
        if node.end_lineno in comments:
            out[comments[node.end_lineno]] += 1
        # the element's adjoining separator may sit on a continuation line of its own: its line comment goes with it
        after = [t_ for t_ in toks if t_.start >= (node.end_lineno, 0) and t_.type == tokenize.OP and (t_.start[0] > node.end_lineno)]
        nxt = next((t_ for t_ in toks if (t_.start[0], t_.start[1]) >= (node.end_lineno, len(lines[node.end_lineno - 1].encode()[:node.end_col_offset].decode())) and t_.type not in (tokenize.COMMENT, tokenize.NL, tokenize.NEWLINE)), None)
        if nxt is not None and nxt.string in (',', '=', '|', 'or', 'and', ')') and nxt.start[0] in comments:
            out[comments[nxt.start[0]]] += 1
        if trail.startswith(('all', 'block')):
            ln = node.end_lineno + 1
            while ln <= len(lines) and ln not in code_lines:
                if ln in comments:
                    out[comments[ln]] += 1
                elif trail.startswith('block') and not lines[ln - 1].strip():
                    break
                ln += 1
    # comments between the element and its own enclosing parentheses disappear with those parentheses
    code = [t_ for t_ in toks if t_.type not in (tokenize.COMMENT, tokenize.NL, tokenize.NEWLINE, tokenize.INDENT, tokenize.DEDENT, tokenize.ENDMARKER) and t_.string]
    s_pos = (node.lineno, len(lines[node.lineno - 1].encode()[:node.col_offset].decode()))
    e_pos = (node.end_lineno, len(lines[node.end_lineno - 1].encode()[:node.end_col_offset].decode()))
    li = max((i for i, t_ in enumerate(code) if t_.end <= s_pos), default=-1)
    ri = min((i for i, t_ in enumerate(code) if t_.start >= e_pos), default=len(code))
    while li >= 0 and ri < len(code) and code[li].string == '(' and code[ri].string == ')':
        for t_ in toks:
            if t_.type == tokenize.COMMENT and (code[li].end <= t_.start < s_pos or e_pos <= t_.start < code[ri].start):
                out[t_.string.rstrip()] += 1
        s_pos, e_pos = code[li].start, code[ri].end
        li -= 1
        ri += 1
    if not lead.startswith('none'):
        first_ln = node.lineno
        col0 = len(lines[node.lineno - 1].encode()[:node.col_offset].decode())
        prev = [t_ for t_ in toks if t_.type == tokenize.OP and (t_.end[0], t_.end[1]) <= (node.lineno, col0)]
        if prev and prev[-1].string == '@':
            first_ln = prev[-1].start[0]   # a decorator starts at its '@'
        ln = first_ln - 1
        while ln >= 1 and ln not in code_lines:
            if ln in comments:
                out[comments[ln]] += 1
            elif lead.startswith('block') and not lines[ln - 1].strip():
                break
            ln -= 1
    return out


def list_fields(a):
    out = []
    for field, val in ast.iter_fields(a):
        if isinstance(val, list) and val and isinstance(val[0], ast.AST) and not isinstance(a, (ast.JoinedStr,)) and type(a).__name__ != 'TemplateStr':
            if isinstance(a, ast.arguments) or (isinstance(a, ast.Compare) and field in ('ops', 'comparators')) or (isinstance(a, ast.Dict)) or (isinstance(a, ast.MatchMapping)) or \
                    (isinstance(a, ast.MatchClass) and field in ('kwd_patterns',)):
                continue
            out.append(field)
    if isinstance(a, (ast.Dict, ast.MatchMapping, ast.Compare, ast.arguments)):
        out.append('_all')
    if isinstance(a, ast.Call):
        out.append('_args')
    if isinstance(a, ast.ClassDef):
        out.append('_bases')
    if isinstance(a, (ast.FunctionDef, ast.AsyncFunctionDef, ast.ClassDef, ast.Module)):
        out.append('_body')
    return out


def resolve(tree, path):
    n = tree
    for field, idx in path:
        n = getattr(n, field)
        if idx is not None:
            n = n[idx]
    return n


def run_window(ctx, FST, src, label, rnd, n_targets):
    from .. import edits, embed, battery
    from ..base import D, short, refparse
    base, _ = refparse(src)
    if base is None:
        return
    try:
        root = FST(src, 'exec')
    except Exception:
        return
    idx = edits.index_tree(root.a)
    if not idx:
        return
    in_f = set()
    for n in ast.walk(root.a):
        if isinstance(n, (ast.JoinedStr, ast.FormattedValue)) or type(n).__name__ in ('TemplateStr', 'Interpolation'):
            for c in ast.walk(n):
                if c is not n:
                    in_f.add(id(c))
    ctx.count('windows')
    orig_tokens = tok_multisets(src)
    targets = []
    for node, parent, field, i, path in idx:
        if id(node) in in_f or isinstance(node, (ast.expr_context, ast.operator, ast.unaryop, ast.boolop, ast.cmpop)):
            continue
        targets.append(('node', path, None))
        for lf in list_fields(node):
            targets.append(('slice', path, lf))
    targets.append(('slice', [], 'body'))
    rnd.shuffle(targets)
    for what, path, lf in targets[:n_targets]:
        if ctx.out_of_time():
            return
        opts = dict(rnd.choice(OPTS))
        oc = '+'.join(f'{k}={v}' for k, v in sorted(opts.items(), key=str)) or 'default'
        node = resolve(root.a, path)
        f = node.f
        cls = type(node).__name__
        case = {'src': src, 'path': path, 'what': what, 'field': lf, 'opts': {k: (list(v) if isinstance(v, tuple) else v) for k, v in opts.items()}, 'label': label}
        before = (root.src, D(root.a))
        # ---- (i) copy leaves the tree alone
        try:
            if what == 'node':
                how = rnd.choice(['copy', 'get'])
                if how == 'copy' or f.pfield is None:
                    c = f.copy(**opts)
                else:
                    c = f.parent.get(f.pfield.idx, field=f.pfield.name, **opts)
                sub_struct = Sn(node)
                i0 = i1 = None
            else:
                L = len(getattr(f, lf))
                i0 = rnd.randint(0, L)
                i1 = rnd.randint(i0, L)
                case['range'] = [i0, i1]
                c = f.get_slice(i0, i1, lf, **opts)
                sub_struct = None
        except NotImplementedError:
            ctx.count('not_implemented(documented)')
            continue
        except Exception as e:
            if 'not implemented' in str(e).lower():
                ctx.count('not_implemented(documented)')
                continue
            ctx.count('copy_refused:' + type(e).__name__)
            if (root.src, D(root.a)) != before:
                ctx.violation('refused-copy-changed-tree', f'{what} {cls}{"." + lf if lf else ""} {oc}: raised {type(e).__name__}: {e} and the tree changed', case)
                root = FST(src, 'exec')
            continue
        ctx.count('copies_checked')
        ctx.evaluations += 1
        ctx.cell(cls if what == 'node' else f'{cls}.{lf}', oc, 'copy')
        if (root.src, D(root.a)) != before:
            ctx.violation(f'copy-disturbed-tree:{what}', f'{what} copy of {cls}{"." + lf if lf else ""} ({oc}) changed the tree it read from: src equal={root.src == before[0]}; text={short(f.src if f.a else "", 80)!r}', case)
            root = FST(src, 'exec')
            continue
        if not isinstance(c, FST):
            ctx.count('copy_returned_non_tree')
            continue
        # no node object shared between the tree and the copy
        if rnd.random() < 0.3:
            ids = {id(x) for x in ast.walk(root.a)}
            if any(id(x) in ids for x in ast.walk(c.a)):
                ctx.violation('copy-shares-node-objects-with-tree', f'{what} copy of {cls} ({oc}) shares AST node objects with the original tree', case)
                continue
            if any(getattr(x, 'f', None) is None or x.f.root is not c for x in ast.walk(c.a)):
                ctx.violation('copy-not-self-contained', f'{what} copy of {cls} ({oc}): some node of the copy is not linked to the copy root', case)
                continue
        if rnd.random() < 0.05:
            n, diff = battery.compare_with_fresh(root, FST, sample=0.3, rnd=rnd, heavy=False)
            ctx.count('battery_after_copy')
            if diff:
                ctx.violation('copy-dirtied-caches', f'after {what} copy of {cls} ({oc}) a query differs from a fresh parse: {diff}', case)
                continue
        # ---- (ii) standalone parse via embedding
        mode = embed.mode_for_root(c.a)
        degenerate = what == 'slice' and (i1 - i0 < (2 if isinstance(node, (ast.BoolOp, ast.Compare, ast.MatchOr)) else 1))
        if degenerate:
            ctx.count('standalone_degenerate_slice_not_judged')
        elif mode is None:
            ctx.count('standalone_kind_without_embedding')
        else:
            ok, detail = embed.compare_with_ref(c.a, mode, c.src)
            if ok is None:
                ctx.count('standalone_not_judged:' + detail)
            else:
                ctx.count('standalone_parsed')
                if not ok:
                    ctx.violation(f'extracted-piece-not-standalone:{detail}', f'{what} {cls}{"." + lf if lf else ""} ({oc}): the extracted tree does not match CPython\'s parse of its own source in mode {mode!r} ({detail}); piece={short(c.src, 200)!r}', case)
                    continue
        # ---- (iii) structure equals the original sub-tree / sub-list
        if what == 'node':
            if Sn(c.a) != sub_struct and any(isinstance(x, ast.Constant) and isinstance(x.value, str) and '\\\n' in (ast.get_source_segment(src, x) or '') for x in ast.walk(node)):
                ctx.violation('docstring-dedent-alters-value-after-backslash-continuation', f'copy of {cls} ({oc}): a docstring line ending in a backslash continuation is re-indented and the string VALUE changes', case)
                continue
            if Sn(c.a) != sub_struct and not isinstance(node, (ast.arguments,)):
                ctx.violation(f'copy-structure-differs:{cls}', f'copy of {cls} ({oc}) is not structurally equal to the original: {short(Sn(c.a), 200)} vs {short(sub_struct, 200)}', case)
                continue
        # ---- (iv) cut == copy, remainder == delete
        r2, r3 = FST(src, 'exec'), FST(src, 'exec')
        f2, f3 = resolve(r2.a, path).f, resolve(r3.a, path).f
        try:
            cc = f2.cut(**opts) if what == 'node' else f2.get_slice(i0, i1, lf, cut=True, **opts)
            cut_exc = None
        except Exception as e:
            cut_exc = e
        try:
            f3.remove(**opts) if what == 'node' else f3.put_slice(None, i0, i1, lf, **opts)
            del_exc = None
        except Exception as e:
            del_exc = e
        if cut_exc is not None or del_exc is not None:
            if (cut_exc is None) != (del_exc is None):
                if not any(isinstance(x, NotImplementedError) or 'not implemented' in str(x).lower() for x in (cut_exc, del_exc) if x):
                    ctx.violation('cut-and-delete-disagree-on-refusal', f'{what} {cls}{"." + lf if lf else ""} ({oc}): cut {"raised " + repr(cut_exc)[:80] if cut_exc else "succeeded"} but delete {"raised " + repr(del_exc)[:80] if del_exc else "succeeded"}', case)
            else:
                ctx.count('cut_and_delete_both_refused')
            continue
        ctx.count('cut_vs_copy_delete')
        ctx.cell(cls if what == 'node' else f'{cls}.{lf}', oc, 'cut')
        if cc.src != c.src or Sn(cc.a) != Sn(c.a):
            ctx.violation(f'cut-returns-other-than-copy:{what}', f'{what} {cls}{"." + lf if lf else ""} ({oc}): cut gives {short(cc.src, 150)!r}, copy gives {short(c.src, 150)!r}', case)
            continue
        if refparse(r2.src)[0] is None and refparse(r3.src)[0] is None:
            ctx.count('remainder_invalid_python(norm off): not compared')
        elif r2.src != r3.src and '\\\n' in src:
            ctx.violation('cut-and-delete-place-separator-differently-on-continuation-lines', f'{what} {cls}{"." + lf if lf else ""} ({oc}): after cut {short(r2.src, 200)!r}, after delete {short(r3.src, 200)!r}', case)
            continue
        elif r2.src != r3.src or D(r2.a) != D(r3.a):
            ctx.violation('cut-leaves-other-than-delete:Compare._all' if lf == '_all' and isinstance(node, ast.Compare) else f'cut-leaves-other-than-delete:{what}', f'{what} {cls}{"." + lf if lf else ""} ({oc}): after cut {short(r2.src, 200)!r}, after delete {short(r3.src, 200)!r}', case)
            continue
        # ---- (v) conservation
        tr, tc = tok_multisets(r2.src), tok_multisets(cc.src)
        if orig_tokens and tr and tc:
            ctx.count('conservation_checked')
            cb, lb = orig_tokens
            ca, la = tr[0] + tc[0], tr[1] + tc[1]
            lost_c = cb - ca
            if lost_c and not (ca - cb):
                allowed = trivia_selected_comments(src, node, opts)
                if not (lost_c - allowed):
                    ctx.count('comments_deleted_as_selected_by_trivia')
                    cb = ca
            if cb != ca and not (ca - cb):
                par = resolve(base, path[:-1]) if path and what == 'node' else node
                fld = path[-1][0] if path and what == 'node' else lf
                key = None
                if fld in ('orelse', 'finalbody') and (what == 'node' and len(getattr(par, fld)) == 1 or what == 'slice' and i0 == 0 and i1 == len(getattr(node, lf))):
                    key = 'comment-lost-when-else-or-finally-block-emptied'
                elif (isinstance(par, ast.BoolOp) and what == 'node') or (what == 'slice' and isinstance(node, ast.BoolOp)):
                    key = 'boolop-operand-cut-drops-comment-next-to-removed-operator'
                elif re.search(r'\\\n[ \t]*;', src):
                    key = 'statement-cut-before-semicolon-on-continuation-line'
                if key is None and not isinstance(node if what == 'node' else (getattr(node, lf, None) or [None])[0] if not lf.startswith('_') else None, (ast.stmt, ast.ExceptHandler, ast.match_case)) \
                        and not (what == 'slice' and lf in ('body', 'orelse', 'finalbody', 'handlers', 'cases', '_body')):
                    key = 'exprlike-cut-loses-comment-not-selected-by-trivia'
                if key:
                    ctx.violation(key, f'{what} {cls}{"." + lf if lf else ""} ({oc}): comments lost {dict(cb - ca)}; remainder={short(r2.src, 200)!r} piece={short(cc.src, 100)!r}', case)
                    continue
            if cb != ca:
                ctx.violation('comment-not-conserved-by-cut', f'{what} {cls}{"." + lf if lf else ""} ({oc}): comments lost {dict(cb - ca)} duplicated/new {dict(ca - cb)}; remainder={short(r2.src, 160)!r} piece={short(cc.src, 120)!r}', case)
                continue
            if lb != la and what == 'node' and path and not (la - lb):
                par = resolve(base, path[:-1])
                dep = collections.Counter()
                if isinstance(par, ast.ExceptHandler) and path[-1][0] == 'type' and par.name:
                    dep[par.name] += 1       # `except T as e` -> `except:` cannot keep the name
                elif isinstance(par, ast.Raise) and path[-1][0] == 'exc' and par.cause is not None:
                    dep = tok_multisets(ast.get_source_segment(src, par.cause) or '')[1]   # `raise X from c` -> `raise` cannot keep the cause
                if dep and not ((lb - la) - dep):
                    ctx.count('dependent_clause_dropped(required by the move)')
                    lb = la
            if lb != la and re.search(r';[ \t]*\\\n', src) and isinstance(node, ast.stmt):
                ctx.violation('one-line-block-statement-cut-with-continuation-after-semicolon-eats-header', f'{what} {cls} ({oc}): tokens lost {dict(lb - la)}; remainder={short(r2.src, 200)!r}', case)
                continue
            if lb != la and re.search(r'\\\n[ \t]*;', src):
                ctx.violation('statement-cut-before-semicolon-on-continuation-line', f'{what} {cls} ({oc}): tokens lost {dict(lb - la)}; remainder={short(r2.src, 200)!r}', case)
                continue
            if lb != la:
                lost, extra = lb - la, la - lb
                # `pass`-free: names/numbers/strings must be conserved exactly
                ctx.violation('tokens-not-conserved-by-cut', f'{what} {cls}{"." + lf if lf else ""} ({oc}): leaf tokens lost {dict(lost)} new {dict(extra)}; remainder={short(r2.src, 160)!r} piece={short(cc.src, 120)!r}', case)
                continue
        else:
            ctx.count('conservation_not_tokenizable')
    if len(ctx.samples) < 4:
        ctx.sample({'window': label, 'src': short(src, 120), 'targets_tried': min(n_targets, len(targets))})


TABLE_PROGRAMS = [   # small containers with multi-byte text, trailing separators, separators on their own / continuation lines: every node and many slices of each
    "x = (a, 'éé',)\ny = (é,)\nz = ('日本', ü, ñ,)\n", 'ä = ö = ü = c\né = a = (ü) = d\n', "f('é', b,)\ng(é, *ü, ñ=ä, **ö,)\n", '[é, ü,]\n{é, ü,}\n{é: ü, ñ: ä,}\n',
    'del ä, ö\nimport ä, ö\nfrom m import (ä as ö, ü,)\nglobal ü, ñ\n', 'with ä as ö, ü: pass\nwith (ä as ö, ü,): pass\n', 'class C(ä, ö,): pass\ndef f(ä, ö=1, *ü, ñ, **é,): pass\n',
    'match v:\n case [é, ü,]: pass\n case {"é": ü, **ñ}: pass\n case C(é, ü=ñ,): pass\n case é | ü | ñ: pass\n', 'r = é < ü <= ñ != ä\ns = é and ü and ñ\nt = é or ü\n',
    'x = [é,  # cé\n     ü,  # cü\n     ñ,\n     ]\n', 'x = (é\n     , ü\n     , ñ)\n', 'f(é, \\\n  ü, \\\n  ñ)\n', 'try: pass\nexcept é: pass\nexcept (ü, ñ) as ä: pass\nfinally: pass\n',
    '@é\n@ü(ñ)\ndef f[Ť, *Ťs, **Ṕ](): pass\n', 'v = [é for é in ü if ñ if ä for ö in é]\nw = {é: ü for é, ü in ñ}\n', 'a = 1; é = "ü"; b = 2  # c\nif é: ü; ñ\n', 'x = é if ü else ñ\ny = lambda é, ü=ñ: ä\nz = é[ü:ñ, ä]\n',
]


def run(ctx):
    from fst import FST
    from .. import corpus
    import random as _random
    for pi, prog in enumerate(TABLE_PROGRAMS):
        if ctx.mine(pi):
            for rep in range(6 if ctx.tier == 'quick' else 30):
                if ctx.out_of_time():
                    break
                run_window(ctx, FST, prog, f'TABLE[{pi}]', _random.Random(rep * 1009 + pi), 10 ** 6)
                ctx.count('table_program_passes')
    while not ctx.out_of_time():
        r = ctx.rnd.random()
        if r < 0.25:
            label, src = 'GRAMMAR', ctx.rnd.choice(corpus.GRAMMAR_PROGRAMS)
        else:
            label, src = corpus.window(ctx.rnd, max_len=1800)
        if ctx.rnd.random() < 0.5:
            src, _ = corpus.relayout(src, ctx.rnd, kinds=['comments', 'comment_lines', 'parens', 'semicolons', 'tabs', 'unicode'] + (['continuation'] if ctx.rnd.random() < 0.25 else []), n=2)
        run_window(ctx, FST, src, label, ctx.rnd, 25 if ctx.tier == 'quick' else 120)


def replay(ctx, case):
    from fst import FST
    import random
    # re-run the window with many targets: the failing target is among them
    run_window(ctx, FST, case['src'], case.get('label', 'replay'), random.Random(0), 10 ** 6)
