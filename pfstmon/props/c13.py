"""C13 - reconcile() returns a valid tree that equals the externally edited AST."""

import ast
import copy

META = {
    'level': 'exploration',
    'rule': ('history: root.mark(); 0-6 recorded pure-AST mutations applied directly to root.a; out = root.reconcile(); up to 3 further mark/mutate/reconcile rounds on the result. '
             'Mutation alphabet: swap/delete/duplicate/insert statements in any body/orelse/finalbody/handlers/cases; replace an expression by a brand-new node, by a node '
             'from elsewhere in the same tree (moved or shared), by .a of a node of ANOTHER FST tree, by a deep copy; reorder/extend elts, Dict keys/values incl. None keys, '
             'Global names; change primitives (identifier, constant, is_async, level); delete optional fields; wrap a node (x -> f(x) reusing x). A round is in scope iff '
             'ast.unparse(edited) parses and round-trips (the user\'s AST denotes valid Python). Oracle: reconcile does not raise; C01 oracle on the result; '
             'dump(ast.parse(out.src)) == dump(ast.parse(ast.unparse(edited))); zero mutations => out.src == marked source; statements whose subtree and ancestors\' other '
             'fields were not touched keep their own text (modulo uniform re-indent) incl. trailing line comment and the comment block directly above. '
             'A cell is (mutation kinds of the round, host node classes). Further mutation kinds: two statements of another FST tree placed side by side (consecutive siblings or same parent but different list fields), ImportFrom.level, comprehension.is_async, Constant.kind, identifiers held as strings (alias/arg/attr/keyword/def/handler/module names), operators; reconcile() is called under randomly chosen ambient thread options that it pins itself (pars, norm, trivia, coerce ...). The edited AST must also be expressible (parse(unparse(edited)) == edited). Two deterministic tables run in every pass: (i) a contiguous RUN of 2-4 nodes of another FST tree (statements or list/tuple/set/call elements) spliced at the start, middle or end of 9 host lists, with EACH index of the run in turn holding a brand-new pure-AST child (judged strictly - the open foreign-node findings concern edits that keep every .f link); (ii) 16 multi-field edits of one node whose final AST is valid but only reachable through a state the source cannot express (ImportFrom module+level, starred-after-keyword calls / class bases, defaults+args, handlers+finalbody, ...), alone, nested and between untouched commented neighbours.'),
    'budget': {'quick': 45, 'thorough': 900},
    'floors': {'quick': {'rounds_judged': 2500, 'foreign_runs_judged': 300, 'multi_field_edits_judged': 40, 'mutations_applied': 4000, 'untouched_statements_checked': 4000},
               'thorough': {'rounds_judged': 60000, 'foreign_runs_judged': 300, 'multi_field_edits_judged': 40, 'mutations_applied': 100000, 'untouched_statements_checked': 100000}},
    'shares_c01_oracle': True,
    'assumptions': ['validity of the edited AST = ast.unparse/ast.parse round trip', 'comments BETWEEN statements adjacent to a mutated neighbour are attributed to the neighbour (reconcile\'s comment handling is documented as experimental); only an untouched statement\'s own lines, its trailing comment and the comment block directly above it are required'],
    'technique': 'runtime monitoring: recorded mutation histories checked against a pure-AST reference (unparse/parse)',
}

NEW_EXPRS = ['x + 1', 'f(a, b=c)', '[1, 2]', 'a if b else c', 'lambda: 0', 'not z', '"s"', '(y := 2)', 'a < b < c', '{k: v}', 'yield_', '-1', 'u.v[w]', 'f"{q}"', '(p, q)', 'é + "日本"', 'await_ or b', '[i for i in j]', '1 if 2 else 3', 'x ** -y']
NEW_STMTS = ['new_var = new_call(1, "two")', 'pass', 'if c:\n    d = 1\nelse:\n    e = 2', 'for i in j:\n    k += i', 'return_ = None', 'import os', 'del zz', 'assert t, "m"', 'with a as b:\n    pass', 'x: int = 1', 'def nf(a, *b):\n    return a', 'try:\n    pass\nexcept E:\n    pass']
DONOR = 'def donor(p, q=1):\n    # donor comment\n    r = p + q  # trailing\n    s = [p,\n         q]\n    return r * (s[0]\n                + 2)\nvalue = {"k": donor(1), **other}\nif c1:\n    first()\n    second()\nelse:\n    third()\n    fourth()\nfor di in dj:\n    fa()\n    fb()\nelse:\n    fc()\n    fd()\n'


def sdump(a):
    return ast.dump(a)


def stmt_lists(tree):
    out = []
    for n in ast.walk(tree):
        for f in ('body', 'orelse', 'finalbody'):
            l = getattr(n, f, None)
            if isinstance(l, list) and l and isinstance(l[0], ast.stmt):
                out.append((n, f, l))
    return out


def expr_slots(tree):
    """(parent, field, idx) of Load-context expressions that can be replaced by an arbitrary expression"""
    out = []
    for n in ast.walk(tree):
        if isinstance(n, (ast.JoinedStr, ast.FormattedValue, ast.pattern, ast.Attribute, ast.keyword)) or type(n).__name__ in ('TemplateStr', 'Interpolation'):
            continue
        for f, v in ast.iter_fields(n):
            if f in ('slice', 'func', 'decorator_list', 'targets', 'target', 'bases', 'annotation', 'returns', 'type_params', 'optional_vars', 'context_expr', 'format_spec', 'args', 'keywords'):
                continue
            if isinstance(v, ast.expr) and isinstance(getattr(v, 'ctx', ast.Load()), ast.Load) and not isinstance(v, (ast.Starred, ast.Slice, ast.JoinedStr, ast.FormattedValue)):
                out.append((n, f, None))
            elif isinstance(v, list) and not isinstance(n, (ast.Compare, ast.BoolOp, ast.Dict, ast.Delete)):
                for i, e in enumerate(v):
                    if isinstance(e, ast.expr) and isinstance(getattr(e, 'ctx', ast.Load()), ast.Load) and not isinstance(e, (ast.Starred, ast.Slice)):
                        out.append((n, f, i))
    return out


def pure_copy(node):
    """deep copy as a brand-new pure AST (copy.deepcopy would also clone the .f links and with them a whole FST tree)"""
    if isinstance(node, ast.AST):
        new = type(node)()
        for f in node._fields:
            if hasattr(node, f):
                setattr(new, f, pure_copy(getattr(node, f)))
        return new
    if isinstance(node, list):
        return [pure_copy(x) for x in node]
    return node


def mutate(rnd, tree, donor_tree, touched):
    """Apply one mutation in place. Returns its kind or None. `touched` collects ids of AST objects that were changed/moved
    (and of the containers whose lists changed)."""
    kind = rnd.choice(['swap_stmts', 'del_stmt', 'dup_stmt', 'insert_new_stmt', 'insert_donor_stmt', 'move_stmt', 'repl_expr_new', 'repl_expr_intree', 'repl_expr_donor', 'repl_expr_copy',
                       'change_name', 'change_const', 'elts_reorder', 'elts_extend', 'dict_reorder', 'wrap_call', 'del_optional', 'toggle_async', 'global_names', 'handlers_swap', 'share_expr',
                       'insert_donor_run', 'import_level', 'const_kind', 'change_ident', 'change_op'])
    nodes = list(ast.walk(tree))
    if kind in ('swap_stmts', 'del_stmt', 'dup_stmt', 'insert_new_stmt', 'insert_donor_stmt', 'move_stmt', 'insert_donor_run'):
        conts = stmt_lists(tree)
        if not conts:
            return None
        n, f, l = rnd.choice(conts)
        if kind == 'swap_stmts' and len(l) >= 2:
            i, j = rnd.sample(range(len(l)), 2)
            l[i], l[j] = l[j], l[i]
            touched.update((id(l[i]), id(l[j])))
        elif kind == 'del_stmt' and len(l) >= 2:
            i = rnd.randrange(len(l))
            touched.add(id(l[i]))
            del l[i]
        elif kind == 'dup_stmt':
            s = rnd.choice(l)
            l.insert(rnd.randrange(len(l) + 1), pure_copy(s) if rnd.random() < 0.5 else s)
            touched.add(id(s))
        elif kind == 'insert_new_stmt':
            l.insert(rnd.randrange(len(l) + 1), ast.parse(rnd.choice(NEW_STMTS)).body[0])
        elif kind == 'insert_donor_stmt':
            l.insert(rnd.randrange(len(l) + 1), rnd.choice(donor_tree.body[0].body[:3]) if rnd.random() < 0.7 else donor_tree.body[0])
        elif kind == 'insert_donor_run':
            # two statements of ANOTHER FST tree placed side by side: consecutive siblings, or same parent but different list fields
            blk = rnd.choice(donor_tree.body[2:4])
            pair = rnd.choice([(blk.body[0], blk.body[1]), (blk.body[0], blk.orelse[1]), (blk.orelse[0], blk.body[1]), (blk.orelse[0], blk.orelse[1]), (blk.body[1], blk.body[0])])
            at = rnd.randrange(len(l) + 1)
            l[at:at] = list(pair)
        elif kind == 'move_stmt':
            n2, f2, l2 = rnd.choice(conts)
            if len(l) < 2 or l2 is l:
                return None
            pi = rnd.randrange(len(l))
            s = l[pi]
            if any(x is n2 for x in ast.walk(s)):
                return None
            l.pop(pi)
            l2.insert(rnd.randrange(len(l2) + 1), s)
            touched.add(id(s))
            touched.add(id(n2))
        else:
            return None
        touched.add(id(n))
        return kind
    if kind in ('repl_expr_new', 'repl_expr_intree', 'repl_expr_donor', 'repl_expr_copy', 'wrap_call', 'share_expr'):
        cands = expr_slots(tree)
        if not cands:
            return None
        n, f, i = rnd.choice(cands)
        old = getattr(n, f) if i is None else getattr(n, f)[i]
        if kind == 'repl_expr_new':
            new = ast.parse(rnd.choice(NEW_EXPRS)).body[0].value
        elif kind in ('repl_expr_intree', 'share_expr', 'repl_expr_copy'):
            exprs = [m for m in nodes if isinstance(m, ast.expr) and isinstance(getattr(m, 'ctx', ast.Load()), ast.Load) and not isinstance(m, (ast.Starred, ast.Slice, ast.FormattedValue, ast.JoinedStr))
                     and not any(isinstance(x, (ast.Yield, ast.YieldFrom, ast.Await, ast.NamedExpr)) for x in ast.walk(m))]
            if not exprs:
                return None
            new = rnd.choice(exprs)
            if any(m is n for m in ast.walk(new)) or new is old:
                return None
            if kind == 'repl_expr_copy':
                new = pure_copy(new)
            elif kind == 'repl_expr_intree':
                pass  # the same object now appears in two places (shared) - reconcile must cope
            touched.add(id(new))
        elif kind == 'repl_expr_donor':
            try:
                new = rnd.choice([donor_tree.body[0].body[0].value, donor_tree.body[0].body[1].value, donor_tree.body[1].value, donor_tree.body[0].body[2].value])
            except (IndexError, AttributeError):
                return None
            if new is None:
                return None
        else:  # wrap_call
            if any(isinstance(x, (ast.Yield, ast.YieldFrom, ast.Await)) for x in ast.walk(old)):
                return None
            new = ast.Call(func=ast.Name(id='wrap', ctx=ast.Load()), args=[old], keywords=[])
        if i is None:
            setattr(n, f, new)
        else:
            getattr(n, f)[i] = new
        touched.add(id(n))
        touched.add(id(old))
        return kind
    if kind == 'change_name':
        names = [n for n in nodes if isinstance(n, ast.Name)]
        if not names:
            return None
        x = rnd.choice(names)
        x.id = rnd.choice(['renamed', 'é', '_r2'])
        touched.add(id(x))
        return kind
    if kind == 'change_const':
        banned = {id(x) for p in nodes if isinstance(p, (ast.JoinedStr, ast.pattern)) for x in ast.walk(p)}
        cs = [n for n in nodes if isinstance(n, ast.Constant) and isinstance(n.value, (int, str)) and not isinstance(n.value, bool) and id(n) not in banned]
        if not cs:
            return None
        x = rnd.choice(cs)
        x.value = (x.value + 1) if isinstance(x.value, int) else x.value + ' changed "q" \\ é'
        touched.add(id(x))
        return kind
    if kind in ('elts_reorder', 'elts_extend'):
        seqs = [n for n in nodes if isinstance(n, (ast.List, ast.Tuple, ast.Set)) and isinstance(getattr(n, 'ctx', ast.Load()), ast.Load) and len(n.elts) >= (2 if kind == 'elts_reorder' else 0)
                and not any(isinstance(e, ast.Slice) for e in n.elts)]
        if not seqs:
            return None
        s = rnd.choice(seqs)
        if kind == 'elts_reorder':
            rnd.shuffle(s.elts)
        else:
            if isinstance(s, ast.Set) and not s.elts:
                return None
            s.elts.insert(rnd.randrange(len(s.elts) + 1), ast.parse(rnd.choice(NEW_EXPRS)).body[0].value)
        touched.add(id(s))
        return kind
    if kind == 'dict_reorder':
        ds = [n for n in nodes if isinstance(n, ast.Dict) and len(n.keys) >= 2]
        if not ds:
            return None
        d = rnd.choice(ds)
        order = list(range(len(d.keys)))
        rnd.shuffle(order)
        d.keys = [d.keys[i] for i in order]
        d.values = [d.values[i] for i in order]
        if rnd.random() < 0.4:
            d.keys.append(None)
            d.values.append(ast.Name(id='more', ctx=ast.Load()))
        touched.add(id(d))
        return kind
    if kind == 'del_optional':
        c = []
        for n in nodes:
            if isinstance(n, ast.Return) and n.value is not None:
                c.append((n, 'value'))
            if isinstance(n, ast.arg) and n.annotation is not None:
                c.append((n, 'annotation'))
            if isinstance(n, (ast.FunctionDef, ast.AsyncFunctionDef)) and n.returns is not None:
                c.append((n, 'returns'))
            if isinstance(n, ast.AnnAssign) and n.value is not None:
                c.append((n, 'value'))
            if isinstance(n, ast.Assert) and n.msg is not None:
                c.append((n, 'msg'))
            if isinstance(n, ast.Raise) and n.cause is not None:
                c.append((n, 'cause'))
            if isinstance(n, ast.withitem) and n.optional_vars is not None:
                c.append((n, 'optional_vars'))
            if isinstance(n, ast.ExceptHandler) and n.name is not None:
                c.append((n, 'name'))
        if not c:
            return None
        n, f = rnd.choice(c)
        setattr(n, f, None)
        touched.add(id(n))
        return kind
    if kind == 'toggle_async':
        cs = [n for n in nodes if isinstance(n, ast.comprehension)]
        if not cs:
            return None
        c = rnd.choice(cs)   # ast.parse accepts an async comprehension anywhere (only the compiler objects), so the edited AST stays valid by the round's criterion
        c.is_async = 0 if c.is_async else 1
        touched.add(id(c))
        return kind
    if kind == 'import_level':
        cs = [n for n in nodes if isinstance(n, ast.ImportFrom) and not any(a.name == '*' for a in n.names)]
        if not cs:
            return None
        c = rnd.choice(cs)
        c.level = (c.level or 0) + 1 if (rnd.random() < 0.6 or not c.level or (c.level == 1 and not c.module)) else c.level - 1
        touched.add(id(c))
        return kind
    if kind == 'const_kind':
        banned = {id(x) for p in nodes if isinstance(p, (ast.JoinedStr, ast.pattern)) for x in ast.walk(p)}
        banned |= {id(p.value) for p in nodes if isinstance(p, ast.Expr)}
        cs = [n for n in nodes if isinstance(n, ast.Constant) and isinstance(n.value, str) and id(n) not in banned]
        if not cs:
            return None
        c = rnd.choice(cs)
        c.kind = None if c.kind else 'u'
        touched.add(id(c))
        return kind
    if kind == 'change_ident':
        c = []
        for n in nodes:
            if isinstance(n, ast.alias) and n.name != '*':
                c.append((n, 'name', rnd.choice(['renmod', 'pk.sub.mod', 'é.ü'])))
                c.append((n, 'asname', rnd.choice(['al', None]) if n.asname else 'al'))
            elif isinstance(n, ast.arg):
                c.append((n, 'arg', 'renarg'))
            elif isinstance(n, ast.Attribute):
                c.append((n, 'attr', rnd.choice(['renattr', 'ü'])))
            elif isinstance(n, ast.keyword) and n.arg:
                c.append((n, 'arg', 'renkw'))
            elif isinstance(n, (ast.FunctionDef, ast.AsyncFunctionDef, ast.ClassDef)):
                c.append((n, 'name', 'rendef'))
            elif isinstance(n, ast.ExceptHandler) and n.name:
                c.append((n, 'name', 'renexc'))
            elif isinstance(n, ast.ImportFrom) and n.module:
                c.append((n, 'module', rnd.choice(['renfrom', 'a.b.c'])))
        if not c:
            return None
        n, f, v = rnd.choice(c)
        setattr(n, f, v)
        touched.add(id(n))
        return kind
    if kind == 'change_op':
        c = [n for n in nodes if isinstance(n, (ast.BinOp, ast.AugAssign, ast.UnaryOp, ast.BoolOp, ast.Compare))]
        if not c:
            return None
        n = rnd.choice(c)
        if isinstance(n, (ast.BinOp, ast.AugAssign)):
            n.op = rnd.choice([ast.Add, ast.Mult, ast.Pow, ast.FloorDiv, ast.BitOr, ast.MatMult, ast.LShift])()
        elif isinstance(n, ast.UnaryOp):
            n.op = rnd.choice([ast.Not, ast.USub, ast.Invert])()
        elif isinstance(n, ast.BoolOp):
            n.op = ast.Or() if isinstance(n.op, ast.And) else ast.And()
        else:
            n.ops[rnd.randrange(len(n.ops))] = rnd.choice([ast.Lt, ast.IsNot, ast.NotIn, ast.Eq, ast.Is, ast.In])()
        touched.add(id(n))
        return kind
    if kind == 'global_names':
        gs = [n for n in nodes if isinstance(n, (ast.Global, ast.Nonlocal))]
        if not gs:
            return None
        g = rnd.choice(gs)
        g.names = list(reversed(g.names)) + ['extra_name']
        touched.add(id(g))
        return kind
    if kind == 'handlers_swap':
        ts = [n for n in nodes if isinstance(n, ast.Try) and len(n.handlers) >= 2 and all(h.type is not None for h in n.handlers)]
        if not ts:
            return None
        t = rnd.choice(ts)
        t.handlers.reverse()
        touched.add(id(t))
        for h in t.handlers:
            touched.add(id(h))
        return kind
    return None


def raw_string_marked_u(out):
    """a Constant of the result tree with kind == 'u' whose literal in the result source carries an r/R prefix"""
    import re
    try:
        for n in ast.walk(out.a):
            if isinstance(n, ast.Constant) and n.kind == 'u' and isinstance(n.value, str):
                seg = ast.get_source_segment(out.src, n) or ''
                if re.match(r'[a-zA-Z]*[rR][a-zA-Z]*[\'"]', seg):
                    return True
    except Exception:
        pass
    return False


def has_cycle(tree, limit=200000):
    """shared sub-trees are allowed (DAG); a cycle is not a tree any more"""
    seen_path = set()
    count = 0
    stack = [(tree, False)]
    while stack:
        n, leaving = stack.pop()
        if leaving:
            seen_path.discard(id(n))
            continue
        count += 1
        if count > limit or id(n) in seen_path:
            return True
        seen_path.add(id(n))
        stack.append((n, True))
        for c in ast.iter_child_nodes(n):
            stack.append((c, False))
    return False


def own_lines(src_lines, st):
    return src_lines[st.lineno - 1:st.end_lineno]


def normalise_indent(lines):
    import textwrap
    return textwrap.dedent('\n'.join(lines)).split('\n')


def run_round(ctx, FST, rnd, root, donor_root, label, round_no, hseed=None):
    """One mark/mutate/reconcile round. Returns the reconciled tree or None to stop."""
    from ..base import insync, short, refparse
    marked_src = root.src
    marked_tree, _ = refparse(marked_src)
    if marked_tree is None:
        return None
    try:
        root.mark()
    except Exception as e:
        ctx.violation('mark-raised', f'{type(e).__name__}: {e}', {'src': marked_src})
        return None
    touched = set()
    kinds = []
    # untouched candidates: statements of the live tree with their objects
    msl = marked_src.split('\n')
    stmts_before = []
    for s in ast.walk(root.a):
        if isinstance(s, ast.stmt) and not hasattr(s, 'body'):
            seg = ast.get_source_segment(marked_src, s)
            if seg is None:
                continue
            tail = msl[s.end_lineno - 1].encode()[s.end_col_offset:].decode()
            if tail.strip().startswith('#'):
                seg += tail.rstrip()
            stmts_before.append((s, seg.split('\n')))
    parent_of = {}
    for n in ast.walk(root.a):
        for c in ast.iter_child_nodes(n):
            parent_of[id(c)] = n
    nmut = rnd.choice([0, 1, 1, 2, 2, 3, 4, 6])
    foreign = {id(x) for x in ast.walk(donor_root.a)}
    for _ in range(nmut):
        k = mutate(rnd, root.a, donor_root.a, touched)
        if has_cycle(root.a):
            ctx.count('mutation_created_cycle(out of scope)')
            return None
        if k:
            kinds.append(k)
            ctx.count('mutations_applied')
            ctx.count('mut:' + k)
    case = {'src': marked_src, 'kinds': kinds, 'hseed': hseed, 'label': label, 'round': round_no}
    try:
        edited_src = ast.unparse(root.a)
        want = ast.parse(edited_src)
        valid = sdump(want) == sdump(ast.parse(ast.unparse(want)))
        if valid and sdump(want) != sdump(root.a):
            # the unparsed text of the edited AST denotes a DIFFERENT tree (e.g. BinOp '|' inside a pattern value reads back as MatchOr): the edited AST is not expressible as Python source
            ctx.count('edited_ast_not_expressible_as_source(out of scope)')
            return None
    except Exception:
        ctx.count('edited_ast_not_valid_python(out of scope)')
        return None
    if not valid:
        ctx.count('edited_ast_not_valid_python(out of scope)')
        return None
    case['edited_unparse'] = edited_src if len(edited_src) < 3000 else None
    amb = {}
    if rnd.random() < 0.3:   # reconcile() pins these options itself: the caller's thread defaults must not matter
        amb = {k: v for k, v in (('pars', rnd.choice([False, True])), ('norm', True), ('trivia', rnd.choice(['all', 'block'])), ('coerce', False), ('pars_walrus', False), ('pars_arglike', False),
                                 ('docstr', False), ('norm_self', True)) if rnd.random() < 0.5}
        case['ambient_options'] = {k: repr(v) for k, v in amb.items()}
    try:
        with FST.options(**amb):
            out = root.reconcile()
    except Exception as e:
        if touched & foreign:
            ctx.violation('mutation-inside-node-of-another-fst-tree-raises', f'round {round_no} kinds={kinds}: a node taken from another FST tree was itself modified (e.g. a statement moved into its body) and reconcile() raised {type(e).__name__}: {short(str(e), 100)}', case)
            return None
        ctx.violation(f'reconcile-raised:{type(e).__name__}', f'round {round_no} kinds={kinds}: {type(e).__name__}: {short(str(e), 160)}; marked src={short(marked_src, 200)!r}', case)
        return None
    ctx.count('rounds_judged')
    ctx.evaluations += 1
    ctx.cell('+'.join(sorted(set(kinds))) or 'no-mutation', round_no)
    ok, detail = insync(out)
    if ok is False and (touched & foreign):
        ctx.violation('mutation-inside-node-of-another-fst-tree-ignored', f'round {round_no} kinds={kinds}: a node taken from another FST tree was itself modified as pure AST before reconcile(); the result keeps the foreign source but the modified AST (out of sync: {detail}); out.src={short(out.src, 200)!r}', case)
        return None
    if ok is False and 'const_kind' in kinds and raw_string_marked_u(out):
        ctx.violation('constant-kind-u-on-raw-string-keeps-raw-spelling', f'round {round_no} kinds={kinds}: Constant.kind was set to "u" on a string written as a raw literal; reconcile() keeps the r-prefixed spelling (which cannot carry a u prefix), so the tree says kind="u" and the source says kind=None; out.src={short(out.src, 200)!r}', case)
        return None
    if ok is False:
        ctx.violation(f'reconcile-result-desync:{detail}', f'round {round_no} kinds={kinds}: result source and tree out of sync ({detail}); out.src={short(out.src, 300)!r}', case)
        return None
    got, _ = refparse(out.src)
    if (got is None or sdump(got) != sdump(want)) and (touched & foreign):
        ctx.violation('mutation-inside-node-of-another-fst-tree-ignored', f'round {round_no} kinds={kinds}: a node taken from another FST tree was itself modified as pure AST before reconcile(); the result keeps the foreign tree\'s source; out.src={short(out.src, 200)!r}', case)
        return None
    if got is None or sdump(got) != sdump(want):
        ctx.violation('reconcile-result-differs-from-edited-ast', f'round {round_no} kinds={kinds}: ast.parse(out.src) != the edited AST (via unparse); out.src={short(out.src, 300)!r} expected like {short(edited_src, 300)!r}', case)
        return None
    if not kinds:
        ctx.count('no_mutation_rounds')
        if out.src != marked_src:
            ctx.violation('reconcile-without-changes-alters-source', f'no mutation but source changed: {short(marked_src, 200)!r} -> {short(out.src, 200)!r}', case)
            return None
    # untouched statements keep their text (own lines + trailing comment), modulo uniform re-indent
    out_text = out.src
    out_norm = '\n'.join(l.strip() for l in out_text.split('\n'))
    for s, lines in stmts_before:
        # untouched: no touched object in its subtree, and none of its ancestors touched (ancestor other fields untouched is approximated by: ancestors not in touched)
        if any(id(x) in touched for x in ast.walk(s)):
            continue
        a = s
        anc_touched = False
        while id(a) in parent_of:
            a = parent_of[id(a)]
            if id(a) in touched:
                anc_touched = True
                break
        if anc_touched:
            continue
        ctx.count('untouched_statements_checked')
        want_text = '\n'.join(l.strip() for l in lines)
        if any('"""' in l or "'''" in l for l in lines):
            continue
        if want_text not in out_norm:
            # only when the statement's structure still occurs in the result
            if ast.dump(s) in ast.dump(got):
                ctx.violation('untouched-statement-text-changed', f'round {round_no} kinds={kinds}: untouched statement {short(chr(10).join(lines), 120)!r} (with its trailing comment) does not appear verbatim in the result {short(out_text, 300)!r}', case)
                return None
    return out


def run_history(ctx, FST, hseed, tier='quick'):
    import random
    from .. import corpus
    rnd = random.Random(hseed)
    if rnd.random() < 0.2:
        label, src = 'GRAMMAR', rnd.choice(corpus.GRAMMAR_PROGRAMS)
    else:
        label, src = corpus.window(rnd, max_len=2500)
    if rnd.random() < 0.4:
        src, _ = corpus.relayout(src, rnd, kinds=['comments', 'comment_lines', 'parens', 'unicode', 'tabs'], n=2)
    from .c11 import has_debug_fstring
    try:
        if has_debug_fstring(ast.parse(src)):
            ctx.count('program_with_debug_fstring_skipped(AST edit of {x=} is ill-defined)')
            return
    except SyntaxError:
        return
    try:
        root = FST(src, 'exec')
        donor = FST(DONOR, 'exec')
    except Exception:
        return
    ctx.count('histories')
    for r in range(rnd.choice([1, 1, 2, 3, 4])):
        if ctx.out_of_time():
            break
        root = run_round(ctx, FST, rnd, root, donor, label, r, hseed)
        if root is None:
            break
        donor = FST(DONOR, 'exec')
    if len(ctx.samples) < 4:
        ctx.sample({'window': label, 'src': src[:120], 'history_seed': hseed})


# ----------------------------------------------------------------------------------------------------------------------
# deterministic sub-domain: a contiguous RUN of nodes of another FST tree spliced into a list field, one of them (any index)
# holding a brand-new pure-AST child. reconcile() verifies each foreign node before copying its source; a node that fails
# must be rebuilt. Judged strictly (this is NOT the open "edit inside a foreign node is ignored" finding, whose edits keep
# every .f link intact: here the replaced child has no FST node at all).

FR_HOSTS = [
    ('x = 1  # one\ny = 2  # two\n', lambda a: a.body), ('if t:\n    p = 0  # c\nelse:\n    q = 1\n', lambda a: a.body[0].body),
    ('def f(a):\n    """doc"""\n    return a\n', lambda a: a.body[0].body), ('for i in j:\n    pass\nelse:\n    k = 1\n', lambda a: a.body[0].orelse),
    ('v = [1, 2]\n', lambda a: a.body[0].value.elts), ('v = (1, 2)\n', lambda a: a.body[0].value.elts), ('v = {1, 2}\n', lambda a: a.body[0].value.elts),
    ('g(1, 2)\n', lambda a: a.body[0].value.args), ('try:\n    a = 1\nfinally:\n    b = 2  # fin\n', lambda a: a.body[0].finalbody),
]
FR_STMT_DONOR = 'a = f(1)  # A\nb = g(2, k=3)  # B\nreturn_ = [h(3), i]  # C\nd = u if v else w\n'
FR_EXPR_DONOR = 'z = [u, v + 1, w(2), (x, y)]\n'


def fresh_expr(rnd):
    return rnd.choice([lambda: ast.Name(id='zzz', ctx=ast.Load()), lambda: ast.Constant(value=99),
                       lambda: ast.BinOp(left=ast.Name(id='m', ctx=ast.Load()), op=ast.Add(), right=ast.Constant(value=1)),
                       lambda: ast.Call(func=ast.Name(id='n', ctx=ast.Load()), args=[], keywords=[])])()


def run_foreign_runs(ctx, FST, rnd):
    from ..base import insync, short, refparse
    for hi, (hsrc, getlist) in enumerate(FR_HOSTS):
        is_stmt = isinstance(getlist(ast.parse(hsrc))[0], ast.stmt)
        dsrc = FR_STMT_DONOR if is_stmt else FR_EXPR_DONOR
        nd = 4
        for k in (2, 3, 4):
            for start in range(0, nd - k + 1):
                for j in range(k):          # index (inside the run) of the node that gets the brand-new child
                    for pos in (0, 1, 'end'):
                        host = FST(hsrc, 'exec')
                        host.mark()
                        donor = FST(dsrc, 'exec')
                        dl = donor.a.body if is_stmt else donor.a.body[0].value.elts
                        run_nodes = dl[start:start + k]
                        slots = expr_slots(run_nodes[j]) if not isinstance(run_nodes[j], ast.Name) else []
                        if not slots:
                            ctx.count('foreign_run_node_without_replaceable_child')
                            continue
                        parent, field, idx = rnd.choice(slots)
                        if idx is None:
                            setattr(parent, field, fresh_expr(rnd))
                        else:
                            getattr(parent, field)[idx] = fresh_expr(rnd)
                        lst = getlist(host.a)
                        at = len(lst) if pos == 'end' else min(pos, len(lst))
                        lst[at:at] = run_nodes
                        case = {'component': 'foreign_run', 'host': hsrc, 'donor': dsrc, 'k': k, 'start': start, 'j': j, 'pos': pos}
                        try:
                            want = ast.parse(ast.unparse(host.a))
                        except Exception:
                            ctx.count('edited_ast_not_valid_python(out of scope)')
                            continue
                        try:
                            out = host.reconcile()
                        except Exception as e:
                            ctx.violation(f'foreign-run-with-new-child:reconcile-raised:{type(e).__name__}', f'run of {k} foreign nodes (node {j} holds a brand-new AST child) into {short(hsrc, 60)!r} at {pos}: {type(e).__name__}: {short(str(e), 120)}', case)
                            continue
                        ctx.count('foreign_runs_judged')
                        ctx.evaluations += 1
                        ctx.cell('foreign-run', 'stmt' if is_stmt else 'expr', k, j == 0)
                        ok, detail = insync(out)
                        got, _ = refparse(out.src)
                        if ok is False or got is None or sdump(got) != sdump(want):
                            ctx.violation('foreign-run-with-new-child:result-differs-from-edited-ast', f'run of {k} foreign nodes (node {j} of the run holds a brand-new AST child) into {short(hsrc, 60)!r} at {pos}: '
                                          f'out.src={short(out.src, 200)!r} does not denote the edited AST {short(ast.unparse(want), 200)!r} (insync={ok} {detail})', case)


# several fields of ONE node edited together, where the valid final AST is only reachable field by field through a state
# the source cannot express (reconcile falls back to putting the whole node)
MULTI = [
    ('from a import b\n', lambda a: (setattr(a.body[0], 'module', None), setattr(a.body[0], 'level', 1))),
    ('from . import b\n', lambda a: (setattr(a.body[0], 'module', 'm'), setattr(a.body[0], 'level', 0))),
    ('from .a import b\n', lambda a: (setattr(a.body[0], 'module', None), setattr(a.body[0], 'level', 2))),
    ('f(a=1, *b)\n', lambda a: a.body[0].value.args.__setitem__(0, ast.Name(id='c', ctx=ast.Load()))),
    ('f(a=1, *b)\n', lambda a: setattr(a.body[0].value.keywords[0], 'arg', None)),
    ('f(x, a=1, *b, c=2)\n', lambda a: a.body[0].value.args.__setitem__(1, a.body[0].value.args[1].value)),
    ('class C(metaclass=M, *mixins): pass\n', lambda a: a.body[0].bases.__setitem__(0, ast.Name(id='B', ctx=ast.Load()))),
    ('class C(metaclass=M, *mixins): pass\n', lambda a: setattr(a.body[0].keywords[0], 'arg', None)),
    ('def f(a, b=1): pass\n', lambda a: (a.body[0].args.defaults.clear(), a.body[0].args.args.append(ast.arg(arg='c')))),
    ('def f(a, /, b): pass\n', lambda a: (a.body[0].args.args.extend(a.body[0].args.posonlyargs), a.body[0].args.posonlyargs.clear())),
    ('try: pass\nexcept E: pass\n', lambda a: (a.body[0].handlers.clear(), a.body[0].finalbody.append(ast.Pass()))),
    ('x: int = 1\n', lambda a: (setattr(a.body[0], 'value', None), setattr(a.body[0], 'annotation', ast.Name(id='str', ctx=ast.Load())))),
    ('with a as b: pass\n', lambda a: (setattr(a.body[0].items[0], 'optional_vars', None), setattr(a.body[0].items[0], 'context_expr', ast.Name(id='c', ctx=ast.Load())))),
    ('d = {a: 1, **b}\n', lambda a: (a.body[0].value.keys.__setitem__(1, ast.Name(id='k', ctx=ast.Load())), a.body[0].value.keys.__setitem__(0, None))),
    ('lambda a, b=1: a\n', lambda a: (a.body[0].value.args.defaults.clear(), a.body[0].value.args.args.reverse())),
    ('import a.b as c\n', lambda a: (setattr(a.body[0].names[0], 'asname', None), setattr(a.body[0].names[0], 'name', 'd'))),
]


def run_multi_field(ctx, FST):
    from ..base import insync, short, refparse
    for i, (src, edit) in enumerate(MULTI):
        for wrap in ('{}', 'if t:\n    {}', 'x = 0  # keep\n{}y = 1  # keep too\n'):
            full = wrap.format(src) if wrap != '{}' else src
            if wrap.startswith('if'):
                full = 'if t:\n    ' + src.replace('\n', '\n    ').rstrip(' ')
            try:
                root = FST(full, 'exec')
            except Exception:
                continue
            root.mark()
            sub = ast.Module(body=root.a.body[0].body if wrap.startswith('if') else root.a.body[1:2] if wrap.startswith('x') else root.a.body, type_ignores=[])
            try:
                edit(sub)
                want = ast.parse(ast.unparse(root.a))
                if sdump(want) != sdump(ast.parse(ast.unparse(want))):
                    raise ValueError
            except Exception:
                ctx.count('edited_ast_not_valid_python(out of scope)')
                continue
            case = {'component': 'multi_field', 'index': i, 'src': full}
            try:
                out = root.reconcile()
            except Exception as e:
                ctx.violation(f'multi-field-edit:reconcile-raised:{type(e).__name__}', f'several fields of one node edited together in {short(full, 80)!r} -> valid AST {short(ast.unparse(want), 80)!r}, reconcile() raised {type(e).__name__}: {short(str(e), 120)}', case)
                continue
            ctx.count('multi_field_edits_judged')
            ctx.evaluations += 1
            ctx.cell('multi-field', i, wrap[:2])
            ok, detail = insync(out)
            got, _ = refparse(out.src)
            if ok is False or got is None or sdump(got) != sdump(want):
                ctx.violation('multi-field-edit:result-differs-from-edited-ast', f'{short(full, 80)!r}: out.src={short(out.src, 160)!r} does not denote {short(ast.unparse(want), 160)!r} (insync={ok} {detail})', case)
            if wrap.startswith('x') and ('x = 0  # keep' not in out.src or 'y = 1  # keep too' not in out.src):
                ctx.violation('untouched-statement-text-changed', f'{short(full, 80)!r}: untouched neighbours lost their text: {short(out.src, 160)!r}', case)


def run(ctx):
    from fst import FST
    if ctx.mine(0):
        run_multi_field(ctx, FST)
    if ctx.mine(1) or ctx.mine(2):
        run_foreign_runs(ctx, FST, ctx.rnd)
    while not ctx.out_of_time():
        run_history(ctx, FST, ctx.rnd.getrandbits(48), ctx.tier)


def replay(ctx, case):
    from fst import FST
    if case.get('component') == 'multi_field':
        return run_multi_field(ctx, FST)
    if case.get('component') == 'foreign_run':
        import random
        return run_foreign_runs(ctx, FST, random.Random(0))
    print('marked source of the failing round:')
    print(case.get('src'))
    print('mutation kinds:', case.get('kinds'))
    run_history(ctx, FST, case['hseed'])
