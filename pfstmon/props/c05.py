"""C05 - parsing is lossless and agrees with Python's parser in every parse mode (translation validation)."""

import ast
import io
import tokenize

META = {
    'level': 'translation_validation',
    'rule': ('(a) whole programs: every REAL file / LAYOUT-mutated window parsed by FST(src, "exec"), fst.parse and FST.fromsrc: source unchanged, '
             'ast.dump(include_attributes) equal to ast.parse; (b) fragments: source segments of real nodes (expr, stmt, handler, arg, keyword, alias, '
             'pattern, type_param, slices, arglikes), unparsed position-less nodes and special-slice lists, and a hostile-layout GRAMMAR table, each '
             'parsed in its mode (string and AST-class spelling) and compared with the sub-tree CPython extracts from a layout-neutral embedding '
             '(fragment on own lines inside the wrapper brackets), positions fragment-relative; (c) invalid input: one-token deletions, duplications, '
             'transpositions of valid fragments and valid fragments of other modes; pfst accepting what the embedding rejects, or returning a different '
             'tree, is a disagreement. programs = distinct (mode, text) pairs judged; a cell is (part, mode, node class, verdict class). The hostile table is a COMPLETE cross product in both tiers: every text of every mode\'s table plus a list of wrapper-breaking fragments (\'a if b\', \'a:b # c\', \'a) if (b\', \'*x] if [b\', \'yield from x\', ...) x every mode x {as is, multi-byte identifiers, trailing \';\', trailing \',\'}; a text whose own brackets do not balance (CPython tokenizer) is invalid in every mode.'),
    'budget': {'quick': 45, 'thorough': 900},
    'floors': {'quick': {'hostile_table_cases': 12000, 'programs': 20000, 'whole_programs': 60, 'fragments_compared': 12000, 'invalid_judged': 3000, 'modes_exercised': 28},
               'thorough': {'hostile_table_cases': 12000, 'programs': 300000, 'whole_programs': 400, 'fragments_compared': 200000, 'invalid_judged': 40000, 'modes_exercised': 30}},
    'programs_counter': 'programs',
    'assumptions': ['CPython 3.12 ast.parse on the embedding construct is the reference for fragment modes',
                    "each mode's admitted language is read from the Mode documentation ('expr' admits a lone *a; single-item modes reject a, b)",
                    'children of f-strings and multi-line statements at non-zero indentation are not cut out as fragments'],
    'technique': 'runtime monitoring: reference-model comparison (CPython parse of an embedding) at the FST()/parse boundary',
}

CLASS_MODES = [
    (ast.stmt, 'stmt'), (ast.ExceptHandler, 'ExceptHandler'), (ast.arg, 'arg'), (ast.keyword, 'keyword'),
    (ast.pattern, 'pattern'), (ast.type_param, 'type_param'),
]

HOSTILE = {
    'expr': ['a', '(a)', 'a + \\\n b', '(a, # c\n b)', '# lead\na', 'a # trail', '\na\n', ' a', 'a, b', 'a,', '*a', '*a, b', 'a if b else c', 'lambda: 0', 'x := 1',
             '(x := 1)', 'yield', 'yield a', 'await b', 'f(*a, **k)', '[*a]', 'a[b:c]', '"s" "t"', "f'{a}'", '(i for i in j)', 'i for i in j', 'a:b', '*not a', 'not a',
             'a = b', 'a;b', 'pass', '', '...', 'é', '"é" + é', 'a\n+ b', '(a\n+ b)', 'a)', '(a', 'a # c\n# d', 'a **-b', '1if a else 2', 'a if b else c if d else e',
             '{**a}', '{a: b for a in c}', 'a[b, *c]', 'a[*b]', 'a.b.c', 'not a == b', '-a', 'a<b<c', 'a and b or c'],
    'expr_slice': ['a:b', 'a:b:c', ':', '::', 'a:b, c', 'a, b:c', '*a', '*a, b', 'a', '(a:b)', 'a:b # c', '\na:b\n', 'a :\n b', '*not a', 'a = b', 'x := 1', '(a, b)'],
    'expr_arglike': ['*a', '*not a', '*a or b', 'a', 'a, b', 'k=v', '**a', 'i for i in j', '(i for i in j)', 'a:b', '* a # c', 'x := 1', 'a,'],
    '_arglikes': ['a, *b, c=d, **e', '', 'a', 'a,', '*a or b, c', 'k=v, *a', 'k=v, a', '**a, b', '**a, *b', 'a # c\n, b', 'i for i in j', 'a, i for i in j', '(i for i in j), a', 'a b', 'a, , b', '# only comment'],
    '_arglike': ['a', 'k=v', '*a', '**a', 'a, b', 'a,', '*not a', 'k=v,'],
    'keyword': ['k=v', '**a', 'a', 'k = v # c', 'k=v, j=w', '*a', 'k=', '=v', 'k=v,'],
    'stmt': ['pass', 'a = b', 'if a:\n    b', 'a; b', 'a\nb', '', '# c', 'def f(): pass', '@d\ndef f(): pass', ' pass', 'pass # c', 'pass\n', '\npass', 'x: int = 1', 'if a: b\nelse: c', 'else: pass', 'except: pass', 'case 1: pass',
             'for i in j:\n    pass\nelse:\n    pass', 'with a as b: pass', 'class C: x = 1', 'return', 'a \\\n = b', 'try: pass\nfinally: pass', 'match a:\n case 1: pass', 'type X = int', 'import a'],
    'exec': ['a\nb', '', '# c', 'a; b\n', '\n\n', 'if a:\n b\n', ' a', 'a \\\n', 'def f():\n  """d"""\n', 'a\n  b', 'else: pass'],
    'ExceptHandler': ['except: pass', 'except E as e:\n    pass', 'except (A, B): pass', 'except* E: pass', 'except E, F: pass', 'except: pass\nexcept: pass', 'finally: pass', 'else: pass', 'except E as e.f: pass', ' except: pass', 'except: pass # c', '# c\nexcept: pass', 'except:\n    a\n    b'],
    '_ExceptHandlers': ['except A: pass\nexcept B: pass', '', 'except* A: pass\nexcept* B: pass', 'except A: pass\nexcept* B: pass', 'except: pass\nexcept A: pass', 'except A: pass\nelse: pass', 'except A: pass\nfinally: pass', '# c'],
    'match_case': ['case 1: pass', 'case a, b: pass', 'case [a, *b] if c:\n    pass', 'case _: pass', 'case a | b as c: pass', 'case 1: pass\ncase 2: pass', 'case: pass', 'case 1 pass', ' case 1: pass', 'case (1): pass # c', 'case {"a": b, **c}: pass', 'case C(a, b=c): pass'],
    '_match_cases': ['case 1: pass\ncase 2: pass', '', 'case _: pass', 'case 1: pass\nelse: pass'],
    'pattern': ['1', 'a', '_', 'a.b', '[a, b]', 'a, b', '(a, b)', 'a | b', '{"k": v}', 'C(a, b=c)', '*a', '[*a]', 'a as b', '(a as b)', '-1', '1 + 2j', 'None', '"s" "t"', 'a |\n b', '(a |\n b)', 'a # c', 'f"x"', '1 if a else 2', 'a.b.c', '{**r}', '[a, # c\n b]', '', 'a b', 'a,', '1, *r', '(*a,)'],
    'comprehension': ['for a in b', 'for a in b if c', 'async for a in b', 'for a, b in c if d if e', 'for a in b for c in d', 'for a in b # c', 'for a in\n b', 'for a in b,', 'for a in b, c', 'for a in lambda: 0', 'for a in b if c else d', 'for (a) in (b)', 'for a in b if', 'if a', 'for a.b in c', 'for a in *b', 'for *a, b in c'],
    '_comprehensions': ['for a in b for c in d', '', 'for a in b', 'for a in b if c for d in e if f', 'for a in b\nfor c in d', 'if a'],
    '_comprehension_ifs': ['if a if b', '', 'if a', 'if a\nif b', 'if lambda: 0', 'if a if b else c', 'if (a if b else c)', 'for a in b', 'if a,', 'if a # c'],
    'arguments': ['', 'a', 'a, b=1', 'a, /, b, *c, d=1, **e', '*, a', 'a: int = 1', '*a: *T', '**k: int', 'a, # c\nb', 'a=1, b', '*, **k', '*', 'a, /', '/', 'a, /, b, /', '*a, *b', '**k, a', 'a,', 'a b', '(a)', 'a, *, b=1, c'],
    'arguments_lambda': ['', 'a', 'a, b=1', 'a, /, b, *c, d=1, **e', '*, a', 'a: int', 'a=1, b', '*a, **k', 'a,'],
    'arg': ['a', 'a: int', 'a: int = 1', 'a=1', '*a', 'a, b', 'a # c', 'a:\n int', 'a: *b', 'a,', ''],
    'ImportFrom_name': ['a', 'a as b', '*', 'a.b', 'a as b.c', 'a, b', 'a # c', 'a as\n b', 'a,', '* as a', ''],
    '_ImportFrom_names': ['a, b as c', '', 'a', 'a,', '*', '*, a', 'a.b', 'a, # c\n b', '(a, b)'],
    'Import_name': ['a', 'a.b', 'a.b as c', '*', 'a as b.c', 'a, b', 'a . b', ''],
    '_Import_names': ['a, b.c as d', '', 'a', '*', 'a,'],
    'withitem': ['a', 'a as b', 'a as (b, c)', '(a) as b', '(a as b)', 'a, b', 'a as b, c as d', 'a as b # c', 'a as\n b', 'a,', '(a, b)', '(a, b) as c', 'a as b.c', 'a as b[c]', 'a as 1', '*a', 'a as *b', 'lambda: 0', 'x := 1', '(x := 1)', 'yield', ''],
    '_withitems': ['a, b as c', '', 'a', 'a,', '(a, b)', '(a as b, c)', 'a as b, # c\n c', '(a, b), c'],
    'type_param': ['T', 'T: int', '*Ts', '**P', 'T: (int, str)', 'T, U', 'T = int', 'T # c', 'T:\n int', '*Ts: int', 'T,', ''],
    '_type_params': ['T, *Ts, **P', '', 'T', 'T,', 'T: int, U', 'T, # c\n U', 'T U'],
    '_decorator_list': ['@a', '@a\n@b(c)', '', '@a # c\n@b', 'a', '@', '@a @b', '@(a, b)', '@a.b[c]', '@x := 1', '@lambda: 0', '# c\n@a'],
    '_Assign_targets': ['a =', 'a = b =', 'a = b', '', 'a, b = c =', '*a, b =', 'a.b = c[d] =', '(a) =', 'a = # c', 'a == b =', '1 =', 'a = \\\n b ='],
    'boolop': ['and', 'or', 'not', '&', 'and # c', ' and ', 'and or', ''],
    'operator': ['+', '-', '*', '@', '/', '//', '%', '**', '<<', '>>', '|', '^', '&', '+=', '**=', '//=', '++', 'and', '<', '=', '+ # c', ' + ', '', '* *', '/ /'],
    'unaryop': ['-', '+', '~', 'not', '!', 'not not', '- # c', ''],
    'cmpop': ['<', '<=', '==', '!=', '>', '>=', 'is', 'is not', 'in', 'not in', 'not  in', 'is\\\nnot', 'not', '<>', '=', 'is # c\n not', 'isnot', 'in not', ''],
}


def seg_of(lines, n):
    bl = lines[n.lineno - 1].encode()
    col = len(bl[:n.col_offset].decode())
    el = lines[n.end_lineno - 1].encode()
    ecol = len(el[:n.end_col_offset].decode())
    if n.lineno == n.end_lineno:
        return lines[n.lineno - 1][col:ecol]
    return '\n'.join([lines[n.lineno - 1][col:]] + lines[n.lineno:n.end_lineno - 1] + [lines[n.end_lineno - 1][:ecol]])


def judge(ctx, FST, mode, text, part, known_valid=False, cls=None):
    """One (mode, text) pair. Returns verdict string."""
    from .. import embed
    from ..base import short
    key = (mode, text)
    st, r = embed.ref(mode, text)
    if st == 'unsupported':
        ctx.count('not_judged_unsupported_embedding')
        return 'unsupported'
    ctx.count('programs')
    ctx.evaluations += 1
    ctx.count('mode:' + mode)
    case = {'part': part, 'mode': mode, 'text': text}
    try:
        f = FST(text, mode)
    except Exception as e:
        if isinstance(e, (RecursionError, MemoryError)):
            return 'resource'
        if st.startswith('invalid'):
            ctx.count('invalid_judged')
            ctx.count('both_reject')
            ctx.cell(part, mode, 'both-reject')
            return 'both-reject'
        ctx.count('ref_accepts_pfst_rejects')
        if known_valid or part == 'b':
            ctx.violation(f'valid-fragment-rejected:{mode}', f'mode {mode!r} rejects {short(text, 200)!r} which CPython accepts in the embedding: {type(e).__name__}: {short(str(e), 160)}', case)
        else:
            ctx.cell(part, mode, 'pfst-stricter')
            ctx.count('pfst_stricter_than_embedding(not judged)')
        return 'pfst-rejects'
    if st.startswith('invalid'):
        ctx.count('invalid_judged')
        ctx.count('disagreements_checked')
        ctx.violation(f'single-item-mode-accepts-trailing-comma:{mode}' if st == 'invalid-trailing-comma' else f'invalid-source-accepted:{mode}', f'mode {mode!r} accepts {short(text, 200)!r} -> {type(f.a).__name__} {short(ast.dump(f.a), 200)}; CPython rejects the embedding', case)
        return 'accepts-invalid'
    # both accept
    ctx.count('fragments_compared')
    if f.src != text:
        ctx.violation(f'source-changed-by-parse:{mode}', f'mode {mode!r}: source {short(text, 160)!r} became {short(f.src, 160)!r}', case)
        return 'src-changed'
    ok, detail = embed.compare_with_ref(f.a, mode, text)
    if ok is None:
        ctx.count('not_judged_' + detail)
        return 'unsupported'
    ctx.cell(part, mode, cls or type(f.a).__name__, 'equal' if ok else detail)
    if not ok:
        ctx.count('disagreements_checked')
        rr = r if not isinstance(r, list) else ast.Module(body=r, type_ignores=[])
        ctx.violation(f'fragment-tree-differs:{mode}:{detail}', f'mode {mode!r} on {short(text, 200)!r}: pfst {short(ast.dump(f.a, include_attributes=True), 300)} vs CPython {short(ast.dump(rr, include_attributes=True), 300)}', case)
        return 'differs'
    return 'equal'


def token_mutations(text, rnd, n=6):
    try:
        tk = [t for t in tokenize.generate_tokens(io.StringIO(text).readline) if t.type not in (tokenize.NEWLINE, tokenize.NL, tokenize.ENDMARKER, tokenize.INDENT, tokenize.DEDENT)]
    except Exception:
        return
    if not tk or any(t.start[0] != 1 for t in tk):
        return
    for _ in range(n):
        i = rnd.randrange(len(tk))
        t = tk[i]
        kind = rnd.choice(['del', 'dup', 'swap', 'ins'])
        if kind == 'del':
            yield text[:t.start[1]] + text[t.end[1]:]
        elif kind == 'dup':
            yield text[:t.end[1]] + ' ' + t.string + text[t.end[1]:]
        elif kind == 'swap' and i + 1 < len(tk):
            u = tk[i + 1]
            yield text[:t.start[1]] + u.string + text[t.end[1]:u.start[1]] + t.string + text[u.end[1]:]
        else:
            yield text[:t.start[1]] + rnd.choice([')', '(', ',', ':', '=', '*', 'as', 'if', 'for', '#', ']', '**', 'in', 'not', '.', ';']) + ' ' + text[t.start[1]:]


def whole_program(ctx, FST, src, label):
    import fst as fstmod
    from ..base import D, refparse, short
    ref, eofretry = refparse(src)
    if ref is None:
        return
    ctx.count('whole_programs')
    ctx.count('programs')
    ctx.evaluations += 1
    for how in ('FST', 'fromsrc', 'parse'):
        try:
            if how == 'FST':
                r = FST(src, 'exec')
                a, s = r.a, r.src
            elif how == 'fromsrc':
                r = FST.fromsrc(src, 'exec')
                a, s = r.a, r.src
            else:
                a = fstmod.parse(src)
                s = a.f.root.src
        except Exception as e:
            ctx.violation('valid-program-rejected', f'{label}: {how} raised {type(e).__name__}: {short(str(e), 200)}', {'part': 'a', 'file': label, 'src': src if len(src) < 5000 else None})
            continue
        if s != src:
            ctx.violation('source-changed-by-parse:exec', f'{label}: {how} changed the source text', {'part': 'a', 'file': label})
        if D(a) != D(ref):
            ctx.count('disagreements_checked')
            ctx.violation('program-tree-differs', f'{label}: {how} tree differs from ast.parse', {'part': 'a', 'file': label, 'src': src if len(src) < 5000 else None})
    ctx.cell('a', 'exec', 'whole', 'multibyte' if len(src) != len(src.encode()) else 'ascii')


def fragments_of(ctx, FST, src, rnd, limit):
    """(b): fragments from a real program."""
    try:
        mod = ast.parse(src)
    except SyntaxError:
        return
    lines = src.split('\n')
    in_fstr = set()
    for n in ast.walk(mod):
        if isinstance(n, (ast.JoinedStr, ast.FormattedValue)) or type(n).__name__ in ('TemplateStr', 'Interpolation'):
            for c in ast.walk(n):
                if c is not n:
                    in_fstr.add(id(c))
    parent = {}
    for n in ast.walk(mod):
        for c in ast.iter_child_nodes(n):
            parent[id(c)] = n
    nodes = [n for n in ast.walk(mod) if id(n) not in in_fstr]
    rnd.shuffle(nodes)
    done = 0
    for n in nodes:
        if done >= limit or ctx.out_of_time():
            break
        p = parent.get(id(n))
        cases = []
        if isinstance(n, ast.expr) and hasattr(n, 'lineno'):
            seg = seg_of(lines, n)
            if isinstance(n, ast.Slice):
                cases.append(('expr_slice', seg))
            elif isinstance(n, ast.Starred):
                if isinstance(p, ast.Call):
                    cases.append(('expr_arglike', seg))
                cases.append(('expr', seg)) if isinstance(getattr(n, 'ctx', None), ast.Load) and not isinstance(n.value, (ast.BoolOp, ast.Compare, ast.UnaryOp)) else None
            elif isinstance(p, ast.Subscript) and p.slice is n:
                cases.append(('expr_slice', seg))
            elif isinstance(getattr(n, 'ctx', ast.Load()), ast.Load):
                cases.append(('expr', seg))
                if rnd.random() < 0.2:
                    cases.append(('expr_arglike', seg))
                    cases.append(('expr_slice', seg))
        elif isinstance(n, ast.alias):
            cases.append(('ImportFrom_name' if isinstance(p, ast.ImportFrom) else 'Import_name', seg_of(lines, n)))
        elif isinstance(n, (ast.stmt, ast.ExceptHandler)):
            if n.col_offset and n.lineno != n.end_lineno:
                ctx.count('fragment_skipped_indented_multiline_stmt')
                continue
            if getattr(n, 'decorator_list', None):
                continue
            cases.append(('stmt' if isinstance(n, ast.stmt) else 'ExceptHandler', seg_of(lines, n)))
        else:
            for cls, mode in CLASS_MODES:
                if isinstance(n, cls) and hasattr(n, 'lineno'):
                    cases.append((mode, seg_of(lines, n)))
        # position-less kinds and lists: unparse (normalised layout)
        try:
            if isinstance(n, ast.comprehension):
                cases.append(('comprehension', ast.unparse(n).strip()))
            elif isinstance(n, ast.withitem):
                cases.append(('withitem', ast.unparse(n)))
            elif isinstance(n, ast.arguments) and not isinstance(p, ast.Lambda):
                cases.append(('arguments', ast.unparse(n)))
            elif isinstance(n, ast.arguments):
                cases.append(('arguments_lambda', ast.unparse(n)))
            elif isinstance(n, ast.match_case) and rnd.random() < 0.5:
                cases.append(('match_case', ast.unparse(ast.Match(subject=ast.Name('_'), cases=[n])).split('\n', 1)[1].replace('\n    ', '\n')[4:]))
            elif isinstance(n, ast.Call) and rnd.random() < 0.4:
                cases.append(('_arglikes', ast.unparse(ast.Call(func=ast.Name('f'), args=n.args, keywords=n.keywords))[2:-1]))
            elif isinstance(n, ast.Assign) and rnd.random() < 0.4:
                cases.append(('_Assign_targets', ' = '.join(ast.unparse(t) for t in n.targets) + ' ='))
            elif isinstance(n, (ast.Try, ast.TryStar)) and n.handlers and not n.col_offset and rnd.random() < 0.5:
                cases.append(('_ExceptHandlers', '\n'.join(seg_of(lines, h) for h in n.handlers)))
            elif isinstance(n, (ast.BoolOp,)):
                cases.append(('boolop', 'and' if isinstance(n.op, ast.And) else 'or'))
            elif isinstance(n, ast.With) and rnd.random() < 0.5:
                cases.append(('_withitems', ', '.join(ast.unparse(i) for i in n.items)))
            elif isinstance(n, (ast.FunctionDef, ast.ClassDef)) and n.decorator_list:
                cases.append(('_decorator_list', '\n'.join('@' + ast.unparse(d) for d in n.decorator_list)))
        except Exception:
            pass
        for mode, seg in cases:
            if len(seg) > 4000:
                continue
            v = judge(ctx, FST, mode, seg, 'b', known_valid=True, cls=type(n).__name__)
            done += 1
            # AST class spelling of the mode gives the same answer
            if v == 'equal' and rnd.random() < 0.15 and mode in ('expr', 'stmt', 'ExceptHandler', 'arg', 'keyword', 'pattern', 'type_param'):
                try:
                    g = FST(seg, type(n))
                    if ast.dump(g.a, include_attributes=True) != ast.dump(FST(seg, mode).a, include_attributes=True):
                        ctx.violation('class-mode-differs-from-string-mode', f'FST(text, {type(n).__name__}) differs from FST(text, {mode!r}) on {seg[:120]!r}', {'part': 'b', 'mode': mode, 'text': seg})
                    ctx.count('class_mode_checked')
                except Exception as e:
                    ctx.violation('class-mode-rejects', f'FST(text, {type(n).__name__}) raised {type(e).__name__}: {e} on {seg[:120]!r} accepted in mode {mode!r}', {'part': 'b', 'mode': mode, 'text': seg})
            # (c) one-token mutations of short single-line fragments
            if v == 'equal' and '\n' not in seg and len(seg) < 80 and rnd.random() < 0.35:
                for mt in token_mutations(seg, rnd, 3):
                    judge(ctx, FST, mode, mt, 'c')


CROSS_EXTRA = ['yield from x', 'yield x', '(yield from x)', 'await x', 'a := b', 'lambda a: a', 'a if b else c', '*a', '**a', 'a: int', 'a = b', 'not a', 'a, b', 'a,', 'k=v', 'a as b', 'x for x in y',
               'a:b', '...', 'pass', 'a; b', '', ' ', '# c', '\\\n a', "'s'", "f'{a}'", 'a.b.c', 'a[b]', 'a()', '[a]', '{a: b}', '-a', 'a < b', 'a and b', 'a | b', '1', 'None', '_', 'for a in b', 'if a', '@a',
               'except: pass', 'case 1: pass', 'T: int', '*Ts', '+', 'and', 'is not', 'a =', 'import a', 'def f(): pass',
               # wrapper breakers: text that could close / extend the construct a parse mode embeds the fragment in
               ')', '(', 'a)', '(a', 'a) + (b', 'a] + [b', 'a} | {b', 'a): pass #', 'a: pass #', 'a):\n pass #', 'a, b): pass #', 'a]: pass #', 'a if b', 'a) if (b', '*x] if [b', '[a, *b] if c', 'a = b #',
               'a): pass\nwith (b', 'a\n): pass\ndef g(\nb', 'a):\n    pass\nexcept (b', 'a as b #', 'a for a in b #', 'a: b # c', 'a #', 'a in b', 'a in b for c in d', 'a] = [b', 'a] for a in [b', 'a, *b',
               'a): pass\n case (b', 'a: pass\n case b', 'a, /', '*, a', 'a=1', 'a: int = 1', 'a = 1 #', 'T = int', 'x.y', 'x.y as z', 'x as y, z', '* as a']
MB = {'a': 'á', 'b': '日本', 'c': 'ç', 'x': 'ξ', 'k': 'к', 'v': 'ü', 's': 'ş', 'T': 'Ť'}


def mb_variant(s):
    import re
    return re.sub(r'(?<![\w"\'\\{])([abcxkvsT])(?![\w"\'])', lambda m: MB[m.group(1)], s)


def hostile_table(ctx, FST):
    """Every text of every mode's table (+ CROSS_EXTRA) x EVERY mode x {as is, multi-byte names, trailing ';', trailing ','}: complete enumeration in both tiers."""
    i = 0
    texts_all = []
    seen = set()
    for texts in list(HOSTILE.values()) + [CROSS_EXTRA]:
        for t in texts:
            if t not in seen:
                seen.add(t)
                texts_all.append(t)
    for mode, own in HOSTILE.items():
        own = set(own)
        for t in texts_all:
            vs = [t]
            m = mb_variant(t)
            if m != t:
                vs.append(m)
            if '\n' not in t and '#' not in t and t.strip():
                vs += [t + ';', m + ' ;', t + ',', m + ' ,']
            for v in dict.fromkeys(vs):
                i += 1
                if ctx.mine(i):
                    judge(ctx, FST, mode, v, 'g' if (t in own and v == t) else 'x')
                    ctx.count('hostile_table_cases')


def run(ctx):
    from fst import FST
    from .. import corpus
    hostile_table(ctx, FST)
    files = corpus.real_files()
    order = list(range(len(files)))
    __import__('random').Random(ctx.seed).shuffle(order)
    nfiles = 0
    for k, fi in enumerate(order):
        if not ctx.mine(k):
            continue
        if ctx.elapsed() > ctx.budget_s * 0.45:
            break
        r = corpus.load(files[fi])
        if not r or len(r[0]) > 400000:
            continue
        whole_program(ctx, FST, r[0], files[fi])
        nfiles += 1
    while not ctx.out_of_time():
        fn, src = corpus.window(ctx.rnd, max_len=6000, max_stmts=6)
        if ctx.rnd.random() < 0.5:
            src2, applied = corpus.relayout(src, ctx.rnd, n=3)
            if applied:
                whole_program(ctx, FST, src2, fn + '+' + '+'.join(applied))
                src = src2
        fragments_of(ctx, FST, src, ctx.rnd, 60)
        if len(ctx.samples) < 4:
            ctx.sample({'file': fn, 'window': src[:160]})
    ctx.counters['modes_exercised'] = 0  # computed by the runner from mode:* counters of all shards is not possible; count locally
    ctx.counters['modes_exercised'] = len([k for k in ctx.counters if k.startswith('mode:')]) if ctx.shard == 0 else 0


def replay(ctx, case):
    from fst import FST
    if case.get('part') in ('b', 'c', 'g', 'x'):
        print(judge(ctx, FST, case['mode'], case['text'], case['part'], known_valid=case['part'] == 'b'))
    elif case.get('src'):
        whole_program(ctx, FST, case['src'], case.get('file', 'replay'))
