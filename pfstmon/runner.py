"""Runs one property's monitors over N shard subprocesses, merges observations, decides the three-valued verdict,
writes evidence/<ID>.json. Pure stdlib; runs under any python3."""

import importlib.util
import json
import os
import shutil
import subprocess
import sys
import tempfile
import time

HERE = os.path.dirname(os.path.dirname(os.path.abspath(__file__)))
VENV_PY = os.environ.get('VERIF_PYTHON', '/venv/bin/python')
REPO_SRC = os.environ.get('VERIF_REPO_SRC', '/repo/src')
OUT = os.environ.get('VERIF_OUT') or None   # self-test runs against a scratch tree write evidence/replays here, never into /verif


def load_meta(prop):
    """Read META from the property module without importing fst (module top level must be import-light)."""
    path = os.path.join(HERE, 'pfstmon', 'props', prop.lower() + '.py')
    src = open(path).read()
    import ast
    tree = ast.parse(src)
    for node in tree.body:
        if isinstance(node, ast.Assign) and len(node.targets) == 1 and getattr(node.targets[0], 'id', None) == 'META':
            return ast.literal_eval(node.value)
    raise SystemExit('no META in ' + path)


def known_findings():
    path = os.path.join(HERE, 'KNOWN_FINDINGS.json')
    if not os.path.exists(path):
        return []
    return json.load(open(path)).get('findings', [])


def env_for_shards():
    env = dict(os.environ)
    env['PYTHONPATH'] = REPO_SRC + os.pathsep + HERE
    env['PYTHONHASHSEED'] = '0'
    env['PYTHONDONTWRITEBYTECODE'] = '1'
    env['VERIF_REPO_SRC'] = REPO_SRC
    env.pop('PYTHONSTARTUP', None)
    return env


def run_property(prop, tier, seed, verbose=True):
    meta = load_meta(prop)
    t0 = time.time()
    nshards = int(os.environ.get('VERIF_SHARDS', meta.get('shards', {}).get(tier, 16)))
    budget = float(os.environ.get('VERIF_BUDGET', meta['budget'][tier]))
    watchdog = budget * 2.5 + 120
    tmpd = tempfile.mkdtemp(prefix=f'pfstmon_{prop}_', dir=os.environ.get('VERIF_TMP') or None)
    procs = []
    env = env_for_shards()
    import glob
    for old in glob.glob(os.path.join(OUT or HERE, 'replays', f'{prop}_{tier}_{seed}_*.json')):
        os.unlink(old)
    for sh in range(nshards):
        out = os.path.join(tmpd, f'shard{sh}.json')
        log = open(os.path.join(tmpd, f'shard{sh}.log'), 'w')
        p = subprocess.Popen([VENV_PY, '-W', 'ignore', '-m', 'pfstmon.shard', prop, tier, str(seed), str(sh),
                              str(nshards), str(budget), out], cwd=HERE, env=env, stdout=log, stderr=subprocess.STDOUT)
        procs.append((p, out, log))
    results, problems = [], []
    deadline = time.time() + watchdog
    for sh, (p, out, log) in enumerate(procs):
        try:
            p.wait(timeout=max(1, deadline - time.time()))
        except subprocess.TimeoutExpired:
            p.kill()
            p.wait()
            problems.append(f'shard {sh} hit the wall-clock watchdog ({watchdog:.0f}s)')
        log.close()
        if os.path.exists(out):
            results.append(json.load(open(out)))
        else:
            tail = open(log.name).read()[-1500:]
            problems.append(f'shard {sh} produced no result (rc={p.returncode}): {tail}')
    shutil.rmtree(tmpd, ignore_errors=True)

    counters, cells, samples, violations, notes = {}, set(), [], [], []
    evaluations = 0
    for r in results:
        evaluations += r['evaluations']
        for k, v in r['counters'].items():
            counters[k] = counters.get(k, 0) + v
        cells.update(r['cells'])
        violations.extend(r['violations'])
        notes.extend(r['notes'])
    # samples: round-robin from shards so they are diverse
    for i in range(8):
        for r in results:
            if i < len(r['samples']) and len(samples) < 8:
                samples.append(r['samples'][i])
    for n in notes:
        if n.startswith(('INCONCLUSIVE', 'HARNESS-ERROR')):
            problems.append(n)

    # classify violations against the committed known-findings file (read-only)
    kf = [k for k in known_findings() if k.get('status', 'open') == 'open']
    kf_keys = {(k['property'], k['key']) for k in kf}
    new_v, known_v = [], {}
    for v in violations:
        if (v['property'], v['key']) in kf_keys or (prop, v['key']) in kf_keys or (meta.get('shares_c01_oracle') and ('C01', v['key']) in kf_keys):
            known_v.setdefault(v['key'], []).append(v)
        else:
            new_v.append(v)
    vcount_new = sum(c for k, c in counters.items() if k.startswith('violation:') and (prop, k[10:]) not in kf_keys and not (meta.get('shares_c01_oracle') and ('C01', k[10:]) in kf_keys))

    # floors
    floor_fail = []
    for name, minimum in meta.get('floors', {}).get(tier, {}).items():
        got = len(cells) if name == '#cells' else evaluations if name == '#evaluations' else counters.get(name, 0)
        if got < minimum:
            floor_fail.append(f'{name}={got} < floor {minimum}')

    wall = time.time() - t0
    cov = {
        'evaluations': evaluations,
        'distinct_nontrivial': len(cells),
        'rule': meta['rule'],
        'samples': samples,
        'counters': dict(sorted(counters.items())),
        'cells_sample': sorted(cells)[:60],
        'shards': nshards,
        'shards_reporting': len(results),
        'exhaustive': bool(meta.get('exhaustive', {}).get(tier, False)),
        'known_findings_seen': {k: len(v) for k, v in known_v.items()},
        'problems': problems + floor_fail,
    }
    if meta['level'] == 'translation_validation':
        cov['programs'] = counters.get(meta.get('programs_counter', 'programs'), evaluations)
        cov['disagreements_checked'] = counters.get('disagreements_checked', 0) + sum(len(v) for v in known_v.values()) + len(new_v)
    evidence = {
        'property_id': prop, 'tier': tier, 'seed': seed, 'level': meta['level'],
        'coverage': cov, 'assumptions': meta.get('assumptions', []), 'wall_s': round(wall, 2),
        'violations': vcount_new,
    }
    if samples and evaluations > 0:
        os.makedirs(os.path.join(OUT or HERE, 'evidence'), exist_ok=True)
        with open(os.path.join(OUT or HERE, 'evidence', prop + '.json'), 'w') as f:
            json.dump(evidence, f, indent=1, default=repr)

    for key, vs in sorted(known_v.items()):
        print(f'KNOWN-FINDING: property={prop} {key} ({counters.get("violation:" + key, len(vs))} occurrence(s)) e.g. {vs[0]["message"][:160]!r}')
    if verbose:
        keys = ', '.join(f'{k}={v}' for k, v in sorted(counters.items()) if not k.startswith('violation'))
        print(f'[{prop} {tier} seed={seed}] evaluations={evaluations} cells={len(cells)} wall={wall:.1f}s :: {keys[:1500]}')
    if new_v:
        os.makedirs(os.path.join(OUT or HERE, 'replays'), exist_ok=True)
        seen = set()
        for i, v in enumerate(new_v):
            if v['key'] in seen and i > 10:
                continue
            seen.add(v['key'])
            path = os.path.join(OUT or HERE, 'replays', f'{prop}_{tier}_{seed}_{i}.json')
            with open(path, 'w') as f:
                json.dump(v, f, indent=1, default=repr)
            print(f'VIOLATION property={prop} replay={path}')
            print(f'    key={v["key"]} :: {v["message"][:600]}')
        return 1
    if problems or floor_fail:
        for p in problems + floor_fail:
            print(f'INCONCLUSIVE property={prop}: {p[:800]}')
        return 3
    print(f'HELD property={prop} on {evaluations} monitored evaluations, {len(cells)} distinct cells')
    return 0
