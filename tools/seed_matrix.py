#!/usr/bin/env python3
"""Print the seeded-change matrix (markdown) from seeded/*/meta.json."""
import glob, json, os
here = os.path.dirname(os.path.dirname(os.path.abspath(__file__)))
print('| name | breaks | what it needs to manifest | confirmed (demo ok/fails, suite) | checks run (exit) | caught by |')
print('|---|---|---|---|---|---|')
for f in sorted(glob.glob(os.path.join(here, 'seeded', '*', 'meta.json'))):
    m = json.load(open(f))
    ran = ', '.join(f"{r['check']}({r['exit']})" for r in m.get('ran', []))
    conf = f"{m.get('demo_without_patch_rc')}/{m.get('demo_with_patch_rc')}, {(m.get('suite_with_patch') or 'suite not re-run').split(' in ')[0]}"
    print(f"| {m['name']} | {m.get('breaks')} | {str(m.get('needs', '')).replace('|', '/')[:160]} | {conf} | {ran} | {', '.join(m.get('caught_by') or []) or '**missed**'} |")
